"""C18 — yaclib_std locks, condition variables, threads and thread-local pointers under the FIBER backend.
Proof: coq/props/Properties_C18.v (all schedules, any number of fibers; positive theorems for every repaired
       variant, `_refuted` witnesses for every single pinned defect) and coq/props/Properties_C18_Source.v (the
       same theorems instantiated at `source_variant`, which tools in this file regenerate from the tree under
       test: coq/gen/FiberSyncSource.v).
Tie:   every explored execution of the real library (harness/h_c18.cpp, config F) is mapped, token by token, to
       events of the FiberSync machines and replayed inside Coq with `source_variant`; the machine must accept
       every event and predict every observed result (return values, virtual times, who was woken), the
       library's sleep-map assertion and the presence of incompatible holders.
Oracle (property text only) runs inside the harness on every execution."""
import concurrent.futures, itertools, json, os, random, re, tempfile
import vlib, runner

HARNESS = os.path.join(vlib.VERIF, "harness", "h_c18.cpp")
GEN = os.path.join(vlib.COQ, "gen", "FiberSyncSource.v")

# ------------------------------------------------------------------------------------------------ translator
FLAGS = ["v_tm_while", "v_rc_notify", "v_rc_while", "v_rt_while", "v_sh_while", "v_shs_while", "v_st_while",
         "v_st_helper", "v_shs_eq", "v_sl_guard"]


class Unrecognised(Exception):
    pass


def _body(text, sig):
    """Body of the first function whose header matches sig (brace matching), whitespace-normalised."""
    m = re.search(sig, text)
    if not m:
        raise Unrecognised("no function matching /%s/" % sig)
    i = text.index("{", m.end() - 1) if text[m.end() - 1] != "{" else m.end() - 1
    depth, j = 0, i
    while j < len(text):
        if text[j] == "{":
            depth += 1
        elif text[j] == "}":
            depth -= 1
            if depth == 0:
                break
        j += 1
    body = re.sub(r"//[^\n]*", "", text[i:j + 1])
    return re.sub(r"\s+", " ", body)


def _choose(what, body, table):
    """table: list of (regex, value); exactly the first matching decides; none -> unrecognised."""
    for rx, val in table:
        if re.search(rx, body):
            return val
    raise Unrecognised("%s has a shape the translator does not know: %s" % (what, body[:400]))


def variant_of_source(repo):
    """Reads the nine places of the fiber lock sources that FiberSync.v parameterises.  Anything else in those
    functions must be literally what the model transcribes, otherwise the shape is rejected."""
    rd = lambda p: open(os.path.join(repo, p)).read()
    v = {}
    tm = _body(rd("include/yaclib/fault/detail/fiber/timed_mutex.hpp"), r"bool TimedWaitHelper\(const Timeout& timeout\)\s*\{")
    v["v_tm_while"] = _choose("TimedMutex::TimedWaitHelper", tm, [
        (r"bool r = true; while \(r && _occupied\) \{ r = _queue\.Wait\(timeout\) == WaitStatus::Ready; \}.*if \(r\) \{ _occupied = true; \} return r; \}$", True),
        (r"bool r = true; if \(_occupied\) \{ r = _queue\.Wait\(timeout\) == WaitStatus::Ready; \}.*if \(r\) \{ _occupied = true; \} return r; \}$", False)])
    rc = rd("src/fault/fiber/recursive_mutex.cpp")
    cond = r"_occupied_count != 0 && _owner_id != fault::Scheduler::GetId\(\)"
    v["v_rc_while"] = _choose("RecursiveMutex::lock", _body(rc, r"void RecursiveMutex::lock\(\)\s*\{"), [
        (r"^\{ while \(%s\) \{ _queue\.Wait\(NoTimeoutTag\{\}\); \} LockHelper\(\); \}$" % cond, True),
        (r"^\{ if \(%s\) \{ _queue\.Wait\(NoTimeoutTag\{\}\); \} LockHelper\(\); \}$" % cond, False)])
    v["v_rc_notify"] = _choose("RecursiveMutex::unlock", _body(rc, r"void RecursiveMutex::unlock\(\) noexcept\s*\{"), [
        (r"_occupied_count--; if \(_occupied_count == 0\) \{ _owner_id = 0; _queue\.NotifyOne\(\); \} \}$", True),
        (r"_occupied_count--; if \(_occupied_count == 0\) \{ _owner_id = 0; \} \}$", False)])
    rt = _body(rd("include/yaclib/fault/detail/fiber/recursive_timed_mutex.hpp"), r"bool TimedWaitHelper\(const Timeout& timeout\)\s*\{")
    v["v_rt_while"] = _choose("RecursiveTimedMutex::TimedWaitHelper", rt, [
        (r"bool r = true; while \(r && %s\) \{ r = _queue\.Wait\(timeout\) == WaitStatus::Ready; \}.*if \(r\) \{ LockHelper\(\); \} return r; \}$" % cond, True),
        (r"bool r = true; if \(%s\) \{ r = _queue\.Wait\(timeout\) == WaitStatus::Ready; \}.*if \(r\) \{ LockHelper\(\); \} return r; \}$" % cond, False)])
    sh = rd("src/fault/fiber/shared_mutex.cpp")
    v["v_sh_while"] = _choose("SharedMutex::lock", _body(sh, r"void (fiber::)?SharedMutex::lock\(\)\s*\{"), [
        (r"^\{ while \(_occupied\) \{ _exclusive_queue\.Wait\(NoTimeoutTag\{\}\); \} LockHelper\(\); \}$", True),
        (r"^\{ if \(_occupied\) \{ _exclusive_queue\.Wait\(NoTimeoutTag\{\}\); \} LockHelper\(\); \}$", False)])
    ls = _body(sh, r"void (fiber::)?SharedMutex::lock_shared\(\)\s*\{")
    v["v_shs_while"] = _choose("SharedMutex::lock_shared", ls, [
        (r"^\{ while \(_occupied && _exclusive_mode\) \{ _(exclusive|shared)_queue\.Wait\(NoTimeoutTag\{\}\); \} SharedLockHelper\(\); \}$", True),
        (r"^\{ if \(_occupied && _exclusive_mode\) \{ _(exclusive|shared)_queue\.Wait\(NoTimeoutTag\{\}\); \} SharedLockHelper\(\); \}$", False)])
    v["v_shs_eq"] = _choose("SharedMutex::lock_shared (queue)", ls, [
        (r"\{ _exclusive_queue\.Wait\(NoTimeoutTag\{\}\); \}", True),
        (r"\{ _shared_queue\.Wait\(NoTimeoutTag\{\}\); \}", False)])
    st = _body(rd("include/yaclib/fault/detail/fiber/shared_timed_mutex.hpp"), r"bool TimedWaitHelper\(const Timeout& timeout, bool exclusive\)\s*\{")
    waits = (r"\{ if \(exclusive\) \{ r = _exclusive_queue\.Wait\(timeout\) == WaitStatus::Ready; \} else \{ "
             r"r = _shared_queue\.Wait\(timeout\) == WaitStatus::Ready; \} \}")
    v["v_st_while"] = _choose("SharedTimedMutex::TimedWaitHelper (re-check)", st, [
        (r"bool r = true; while \(r && _occupied && \(exclusive \|\| _exclusive_mode\)\) " + waits, True),
        (r"bool r = true; if \(_occupied && \(exclusive \|\| _exclusive_mode\)\) " + waits, False)])
    v["v_st_helper"] = _choose("SharedTimedMutex::TimedWaitHelper (helper)", st, [
        (r"if \(r\) \{ if \(exclusive\) \{ LockHelper\(\); \} else \{ SharedLockHelper\(\); \} \} return r; \}$", True),
        (r"if \(r\) \{ SharedLockHelper\(\); \} return r; \}$", False)])
    sl = _body(rd("src/fault/fiber/scheduler.cpp"), r"void Scheduler::SleepPreemptive\(std::uint64_t ns\)\s*\{")
    v["v_sl_guard"] = _choose("Scheduler::SleepPreemptive", sl, [
        (r"Sleep\(ns\); if \(auto it = _sleep_list\.find\(ns\); it != _sleep_list\.end\(\) && it->second\.Empty\(\)\) \{ _sleep_list\.erase\(it\); \} \}$", True),
        (r"if \(_time <= ns\) \{ auto it = _sleep_list\.find\(ns\); YACLIB_DEBUG\(it == _sleep_list\.end\(\), \"[^\"]*\"\); if \(it->second\.Empty\(\)\) \{ _sleep_list\.erase\(ns\); \} \} \}$", False)])
    tl = re.sub(r"\s+", " ", rd("include/yaclib/fault/detail/fiber/thread_local_proxy.hpp"))
    tlc = re.sub(r"\s+", " ", rd("src/fault/fiber/thread_local_proxy.cpp"))
    if ("class ThreadLocalPtrProxy final { inline static std::uint64_t sNextFreeIndex = 0;" in tl
            and tl.count("_i(sNextFreeIndex++)") == 4 and "NextFreeIndex()" not in tl):
        v["tl_one_counter"] = False
    elif ("sNextFreeIndex" not in tl and tl.count("_i(NextFreeIndex())") == 4 and
          "std::uint64_t NextFreeIndex() noexcept { static std::uint64_t sNextFreeIndex = 0; return sNextFreeIndex++; }" in tlc):
        v["tl_one_counter"] = True
    else:
        raise Unrecognised("ThreadLocalPtrProxy numbers its instances in a way the translator does not know")
    fb = rd("src/fault/fiber/fiber_base.cpp")
    tl_fixed = [
        ("FiberBase::GetTLS", _body(fb, r"void\* FiberBase::GetTLS\(std::uint64_t id, std::unordered_map<std::uint64_t, void\*>& defaults\)\s*\{"),
         r"^\{ auto it = _tls\.find\(id\); if \(it == _tls\.end\(\)\) \{ return defaults\[id\]; \} return it->second; \}$"),
        ("FiberBase::SetTLS", _body(fb, r"void FiberBase::SetTLS\(std::uint64_t id, void\* value\)\s*\{"), r"^\{ _tls\[id\] = value; \}$"),
        ("fiber::GetImpl", _body(rd("src/fault/fiber/thread_local_proxy.cpp"), r"void\* GetImpl\(std::uint64_t i\)\s*\{"),
         r"^\{ auto\* fiber = fault::Scheduler::Current\(\); YACLIB_ASSERT\(fiber\); return fiber->GetTLS\(i, GetMap\(\)\); \}$"),
        ("fiber::Set", _body(rd("src/fault/fiber/thread_local_proxy.cpp"), r"void Set\(void\* new_value, std::uint64_t i\)\s*\{"),
         r"^\{ auto\* fiber = fault::Scheduler::Current\(\); YACLIB_ASSERT\(fiber\); fiber->SetTLS\(i, new_value\); \}$"),
        ("fiber::SetDefault", _body(rd("src/fault/fiber/thread_local_proxy.cpp"), r"void SetDefault\(void\* new_value, std::uint64_t i\)\s*\{"),
         r"^\{ GetMap\(\)\[i\] = new_value; \}$"),
    ]
    v["tl_text"] = None   # a deviation here is reported, but the lock machines are still checked against the tree
    for what, body, rx in tl_fixed:
        if not re.search(rx, body) and v["tl_text"] is None:
            v["tl_text"] = "%s is not the text FiberSync.v (module Tl) transcribes: %s" % (what, body[:300])
    for frag in ("ThreadLocalPtrProxy& operator=(Type* value) noexcept { Set(value, this->_i); return *this; }",
                 "Type* Get() const noexcept { return static_cast<Type*>(GetImpl(this->_i)); }",
                 "explicit operator bool() const noexcept { return Get() != nullptr; }",
                 "Type* operator->() const noexcept { return Get(); }",
                 "{ if (value != nullptr) { SetDefault(value, _i); } }"):
        if frag not in tl and v["tl_text"] is None:
            v["tl_text"] = "ThreadLocalPtrProxy no longer contains the text the Tl machine transcribes: " + frag
    # the functions that carry no flag must be exactly what FiberSync.v transcribes
    mx = rd("src/fault/fiber/mutex.cpp")
    fixed = [
        ("Mutex::lock", _body(mx, r"void Mutex::lock\(\)\s*\{"), r"^\{ while \(_occupied\) \{ _queue\.Wait\(NoTimeoutTag\{\}\); \} _occupied = true; \}$"),
        ("Mutex::try_lock", _body(mx, r"bool Mutex::try_lock\(\) noexcept\s*\{"), r"^\{ if \(_occupied\) \{ return false; \} _occupied = true; return true; \}$"),
        ("Mutex::unlock", _body(mx, r"void Mutex::unlock\(\) noexcept\s*\{"), r"^\{ _occupied = false; _queue\.NotifyOne\(\); \}$"),
        ("RecursiveMutex::try_lock", _body(rc, r"bool RecursiveMutex::try_lock\(\) noexcept\s*\{"), r"^\{ if \(%s\) \{ return false; \} LockHelper\(\); return true; \}$" % cond),
        ("RecursiveMutex::LockHelper", _body(rc, r"void RecursiveMutex::LockHelper\(\)\s*\{"), r"^\{ _occupied_count\+\+; _owner_id = fault::Scheduler::GetId\(\); \}$"),
        ("SharedMutex::try_lock", _body(sh, r"bool SharedMutex::try_lock\(\) noexcept\s*\{"), r"^\{ if \(_occupied\) \{ return false; \} LockHelper\(\); return true; \}$"),
        ("SharedMutex::unlock", _body(sh, r"void SharedMutex::unlock\(\) noexcept\s*\{"),
         r"^\{ const bool unlock_shared = !_shared_queue\.Empty\(\) && \(_exclusive_queue\.Empty\(\) \|\| GetRandNumber\(2\) == 0\); _occupied = false; if \(unlock_shared\) \{ _shared_queue\.NotifyAll\(\); \} else \{ _exclusive_queue\.NotifyOne\(\); \} \}$"),
        ("SharedMutex::try_lock_shared", _body(sh, r"bool SharedMutex::try_lock_shared\(\)\s*\{"), r"^\{ if \(_occupied && _exclusive_mode\) \{ return false; \} SharedLockHelper\(\); return true; \}$"),
        ("SharedMutex::unlock_shared", _body(sh, r"void SharedMutex::unlock_shared\(\)\s*\{"), r"^\{ _shared_owners_count--; if \(_shared_owners_count == 0\) \{ _occupied = false; _exclusive_queue\.NotifyOne\(\); \} \}$"),
        ("SharedMutex::LockHelper", _body(sh, r"void SharedMutex::LockHelper\(\)\s*\{"), r"^\{ _occupied = true; _exclusive_mode = true; \}$"),
        ("SharedMutex::SharedLockHelper", _body(sh, r"void SharedMutex::SharedLockHelper\(\)\s*\{"), r"^\{ _occupied = true; _exclusive_mode = false; _shared_owners_count\+\+; \}$"),
    ]
    for what, body, rx in fixed:
        if not re.search(rx, body):
            raise Unrecognised("%s is not the text FiberSync.v transcribes: %s" % (what, body[:300]))
    return v


def write_gen(v):
    text = ("(* GENERATED by checks/c18.py (variant_of_source) from the tree under test: which text each of the nine\n"
            "   parameterised places of the fiber lock sources currently has (false = pinned, true = repaired). *)\n"
            "From YV Require Import model.FiberSync.\n\n"
            "Definition source_variant : variant :=\n  {| " +
            ";\n     ".join("%s := %s" % (k, "true" if v[k] else "false") for k in FLAGS) + " |}.\n\n"
            "(* ThreadLocalPtrProxy instances are numbered by one counter (true) or one per pointee type (false) *)\n"
            "Definition source_tl_one_counter : bool := %s.\n" % ("true" if v["tl_one_counter"] else "false"))
    os.makedirs(os.path.dirname(GEN), exist_ok=True)
    old = open(GEN).read() if os.path.exists(GEN) else ""
    if old != text:
        with open(GEN + ".tmp%d" % os.getpid(), "w") as f:
            f.write(text)
        os.replace(GEN + ".tmp%d" % os.getpid(), GEN)


# ------------------------------------------------------------------------------------------------ scenarios
ALPH = {
    "mutex": "LT",
    "timed_mutex": "LTFGZU",
    "recursive_mutex": "LT",
    "recursive_timed_mutex": "LTFGZ",
    "shared_mutex": "LTlt",
    "shared_timed_mutex": "LTltFGfgZzUu",
}
QUICK2 = {"timed_mutex": "LTFG", "recursive_timed_mutex": "LTG", "shared_timed_mutex": "LlG"}
SMALL = {"mutex": "LT", "timed_mutex": "LGF", "recursive_mutex": "LT", "recursive_timed_mutex": "LG", "shared_mutex": "LlT",
         "shared_timed_mutex": "LlG"}
MACHINE = {"mutex": "Mx", "timed_mutex": "Mx", "cv": "Mx", "recursive_mutex": "Rc", "recursive_timed_mutex": "Rc",
           "shared_mutex": "Sh", "shared_timed_mutex": "Sh"}


def progs(alph, maxblocks, nest):
    out = []
    for n in range(1, maxblocks + 1):
        out += ["".join(t) for t in itertools.product(alph, repeat=n)]
    if nest:
        out += ["%s(%s)" % (o, i) for o in alph for i in alph]
    return out


def tuples(cls, alph, sizes):
    """unordered tuples of programs, fiber i having at most sizes[i] blocks"""
    nest = cls.startswith("recursive")
    seen, out = set(), []
    for t in itertools.product(*[progs(alph, m, nest and m > 1) for m in sizes]):
        key = tuple(sorted(t))
        if key not in seen:
            seen.add(key)
            out.append("%s/%s" % (cls, "|".join(t)))
    return out


def cv_ok(ps):
    """a condition-variable scenario is a correct client program iff every waiter is eventually released: count
    only the setters (N: flag + notify_one, A: flag + notify_all) that are not themselves stuck behind an untimed
    wait of their own fiber; some such A, or at least as many such N as there are waiters"""
    free = "".join(p.split("W")[0] for p in ps)
    s = "".join(ps)
    waiters = sum(s.count(c) for c in "Wwxu")
    return waiters == 0 or "A" in free or free.count("N") >= waiters


def cv_scenarios(k, maxlen, alph="WwxuNAnaS"):
    seen, out = set(), []
    ps = progs(alph, maxlen, False)
    for t in itertools.product(ps, repeat=k):
        key = tuple(sorted(t))
        if key in seen or not cv_ok(t):
            continue
        seen.add(key)
        s = "".join(t)
        if not any(c in s for c in "Wwxu") or not any(c in s for c in "NAna"):
            continue
        out.append("cv/" + "|".join(t))
    return out


CV_PICKED = ["cv/W|NS", "cv/Wn|N", "cv/x|nN", "cv/w|Sn", "cv/u|nA", "cv/WA|W", "cv/W|W|A", "cv/W|x|A", "cv/w|u|NN",
             "cv/x|x|NN", "cv/W|n|N"]


def lock_pairs(cls, first, second):
    seen, out = set(), []
    for a in first:
        for b in second:
            key = tuple(sorted((a, b)))
            if key not in seen:
                seen.add(key)
                out.append("%s/%s|%s" % (cls, a, b))
    return out


def scenario_sets(tier, seed):
    """-> list of (label, mode, extra args, [names])"""
    rnd = random.Random(seed)
    sets = []
    ex = []
    for cls, alph in ALPH.items():
        nest = cls.startswith("recursive")
        # fiber 1: every operation as a single block + two-block (and, for recursive locks, nested) programs over the
        # main operations; fiber 2: every operation as a single block
        first = progs(alph, 1, False) + [p for p in progs(QUICK2.get(cls, alph), 2, nest) if len(p) > 1]
        ex += lock_pairs(cls, first, progs(alph, 1, False))
    # one fiber goes to depth >= 2, releases one level and re-acquires (lock / try_lock / timed) before the final
    # unlocks: alone, and next to a second fiber contending with every operation
    for cls in ("recursive_mutex", "recursive_timed_mutex"):
        alph = ALPH[cls]
        deep = ["L(%s%s)" % (a, b) for a in "LT" for b in alph] + ["L(L(L)%s)" % b for b in "LT"] + ["L(L)%s" % b for b in "LT"]
        ex += ["%s/%s" % (cls, d) for d in deep]
        ex += lock_pairs(cls, deep, progs(alph, 1, False))
    ex += cv_scenarios(2, 1)
    ex += ["cv/%s|%s" % (a, b) for a in progs("WuNAn", 2, False) if len(a) == 2 for b in "WwuxNAn"
           if cv_ok((a, b)) and any(c in a + b for c in "Wwxu") and any(c in a + b for c in "NAn")]
    ex += ["cv/W|n|N", "cv/W|W|A"]
    ex += ["tls/0pYp|1pYp4q", "tls/pY0Yp|qY5Yq|p1p", "tls/04pq|15pq|pq", "tls/08pr|19pr", "tls/0Y8pYr|r9Yp"]
    # initialisers (d, e start non-null), stores of nullptr, reads after them in the same and in other fibers, after
    # other fibers' stores, in fibers created later
    ex += ["tls/sv s|st".replace(" ", ""), "tls/AYvYs|sYBYs|s", "tls/twYt|CYtYD|t", "tls/0xYp|p1Yp", "tls/vYsAYs|sYvYs",
           "tls/vJ(sAs)s|Bs", "tls/8zrwt|9rt", "tls/AJ(svs)Yvs|J(s)Bs"]
    ex += ["thread/J(S)J()YD(Y)S", "thread/D(S)D(Y)Y", "thread/J(J(Y)D(S))Y", "thread/D(J(S))J(Y)S", "thread/D(Y)D(Y)J(Y)"]
    ex += ["mutex/LS|L", "timed_mutex/L(S)|F|G", "cv/WS|SN"]
    sets.append(("exhaustive: 2 fibers x (<=2,<=1) blocks of every lock class, 2 fibers x <=2 condvar operations, thread and "
                 "thread-local programs", "dfs", ["--max", str(DFS_CAP)], ex))
    if tier == "thorough":
        have = set(ex)
        ex2 = []
        for cls, alph in ALPH.items():
            small = SMALL.get(cls, alph)
            ex2 += [n for n in tuples(cls, small, (2, 2)) if n not in have]
            ex2 += tuples(cls, small[:3], (1, 1, 1))
            wide = "LTltGg" if cls == "shared_timed_mutex" else alph
            ex2 += [n for n in lock_pairs(cls, progs(alph, 1, False) + progs(wide, 2, cls.startswith("recursive")),
                                          progs(alph, 1, False)) if n not in have]
        ex2 += [n for n in ["cv/%s|%s" % (a, b) for a in progs("WwxuNAna", 2, False) if len(a) == 2 for b in "WwuxNAna"
                            if cv_ok((a, b)) and any(c in a + b for c in "Wwxu") and any(c in a + b for c in "NAna")]
                if n not in have]
        ex2 += ["cv/u|u|A", "cv/W|x|A"]
        ex2 = sorted(set(ex2))
        sets.append(("exhaustive: 2 fibers x (<=2,<=2) blocks and 3 fibers x 1 block over the main operations, more condvar "
                     "programs", "dfs", ["--max", str(DFS_CAP)], ex2))
    # targeted: four fibers on one shared(_timed)_mutex — an exclusive holder that unlocks, a blocked lock_shared
    # reader, a timed exclusive locker with a finite deadline, and a barging try_lock_shared that keeps the lock over a
    # virtual-time sleep — and its variations; depth-first with a preemption bound (the lost wake-ups of this family
    # need one or two voluntary switches; blocking switches and the coin of unlock() are free)
    tgt = ["shared_timed_mutex/L|l|F|t(S)", "shared_timed_mutex/L|l|U|t(S)", "shared_timed_mutex/L|l|F|l(S)",
           "shared_timed_mutex/L(S)|l|F|t(S)", "shared_timed_mutex/L|l|f|T(S)", "shared_timed_mutex/L|L|f|t(S)",
           "shared_timed_mutex/L|l|G|t", "shared_mutex/L|l|L|t", "shared_mutex/L|l|l|T",
           "timed_mutex/L|L|F|T(S)", "recursive_timed_mutex/L|L|F|T(S)"]
    if tier == "thorough":
        tgt += ["shared_timed_mutex/L|lL|F|t(S)", "shared_timed_mutex/L|l|F|f(S)", "shared_timed_mutex/L|l|Z|t(S)"]
    sets.append(("targeted: 4-5 fibers, readers blocked in lock_shared behind timed exclusive lockers and barging readers; "
                 "DFS with preemption bound %d" % (1 if tier == "quick" else 2), "dfs",
                 ["--pb", "1" if tier == "quick" else "2", "--max", str(DFS_CAP)], tgt))
    # seeded random walks over larger configurations
    big = []
    n_big = 40 if tier == "quick" else 160
    for i in range(n_big):
        cls = rnd.choice(list(ALPH) + ["cv"])
        k = rnd.choice([3, 4])
        if cls == "cv":
            while True:
                t = ["".join(rnd.choice("WwxuNAnaS") for _ in range(rnd.choice([1, 2]))) for _ in range(k)]
                if cv_ok(t) and any(c in "".join(t) for c in "Wwxu"):
                    break
            big.append("cv/" + "|".join(t))
        else:
            pl = progs(ALPH[cls], 2, cls.startswith("recursive"))
            if cls.startswith("recursive"):
                pl = pl + ["L(%s%s)" % (a, b) for a in "LT" for b in ALPH[cls]] * 3
            big.append("%s/%s" % (cls, "|".join(rnd.choice(pl) for _ in range(k))))
    # always mix untimed shared lockers with timed exclusive ones (and sleeps inside critical sections)
    for i in range(8 if tier == "quick" else 40):
        k = rnd.choice([3, 4])
        pool = ["L", "l", "F", "G", "U", "t(S)", "l(S)", "L(S)", "T", "f", "lL", "Ll", "FL", "tl"]
        while True:
            t = [rnd.choice(pool) for _ in range(k)]
            j = "".join(t)
            if "l" in j and any(c in j for c in "FGU") and "L" in j:
                break
        big.append("shared_timed_mutex/" + "|".join(t))
    big = sorted(set(big))
    sets.append(("seeded random schedules, 3-4 fibers x <=2 blocks", "random",
                 ["--max", "60" if tier == "quick" else "200", "--seed", str(seed)], big))
    return sets


# ------------------------------------------------------------------------------------------------ mapping
def fib(name):
    return 0 if name == "main" else int(name[1:])


TOK = re.compile(r">(\w+)@(\d+)$|(\w+):(\^)$|(\w+):\?(\d+)/(\d+)$|(\w+):!(.*)$|(\w+):([a-z_]+)@(\w+)=(.*)$|(\w+):\$(\d)$")

MX_OPS = {"lockx": "OLock", "tryx": "OTry", "unlockx": "OUnlock", "forx": "OTimed", "untilx": "OTimed",
          "cvwait": "OCvWait", "cvfor": "OCvWait", "cvuntil": "OCvWait", "notify1": "ONotifyOne",
          "notifyall": "ONotifyAll", "sleep": "OSleep"}
RES_KIND = {"lockx": 1, "unlockx": 2, "tryx": 3, "forx": 4, "untilx": 4, "cvwait": 5, "cvfor": 5, "cvuntil": 5,
            "sleep": 6, "notify1": 7, "notifyall": 7,
            "locks": 11, "unlocks": 12, "trys": 13, "fors": 14, "untils": 14}
TIMED_RES = {4, 5, 6, 14}


def gallina_op(machine, op, arg, pick, coin=0):
    p = pick if pick is not None else 0
    if machine == "Mx":
        k = MX_OPS[op]
        if op in ("forx",):
            return "Mx.OTimed (Dur %d)" % arg
        if op == "untilx":
            return "Mx.OTimed (Abs %d)" % arg
        if op == "cvwait":
            return "Mx.OCvWait None %d" % p
        if op == "cvfor":
            return "Mx.OCvWait (Some (Dur %d)) %d" % (arg, p)
        if op == "cvuntil":
            return "Mx.OCvWait (Some (Abs %d)) %d" % (arg, p)
        if op in ("unlockx", "notify1"):
            return "Mx.%s %d" % (k, p)
        if op == "sleep":
            return "Mx.OSleep %d" % arg
        return "Mx." + k
    if machine == "Rc":
        return {"lockx": "Rc.OLock", "tryx": "Rc.OTry", "unlockx": "Rc.OUnlock %d" % p,
                "forx": "Rc.OTimed (Dur %d)" % (arg or 0), "untilx": "Rc.OTimed (Abs %d)" % (arg or 0)}[op]
    return {"lockx": "Sh.OLockX", "tryx": "Sh.OTryX", "unlockx": "Sh.OUnlockX %s %d" % ("true" if coin == 0 else "false", p),
            "locks": "Sh.OLockS", "trys": "Sh.OTryS", "unlocks": "Sh.OUnlockS %d" % p,
            "forx": "Sh.OTimedX (Dur %d)" % (arg or 0), "untilx": "Sh.OTimedX (Abs %d)" % (arg or 0),
            "fors": "Sh.OTimedS (Dur %d)" % (arg or 0), "untils": "Sh.OTimedS (Abs %d)" % (arg or 0)}[op]


def compact_op(machine, op, arg, pick, coin=0):
    """(code, a, b) of FiberSyncObs.{mx,rc,sh}_dec"""
    p = pick if pick is not None else 0
    a = arg or 0
    if machine == "Mx":
        return {"lockx": (1, 0, 0), "tryx": (2, 0, 0), "unlockx": (3, p, 0), "forx": (4, a, 0), "untilx": (5, a, 0),
                "cvwait": (6, 0, p), "cvfor": (7, a, p), "cvuntil": (8, a, p), "notify1": (9, p, 0),
                "notifyall": (10, 0, 0), "sleep": (11, a, 0)}[op]
    if machine == "Rc":
        return {"lockx": (1, 0, 0), "tryx": (2, 0, 0), "unlockx": (3, p, 0), "forx": (4, a, 0), "untilx": (5, a, 0)}[op]
    return {"lockx": (1, 0, 0), "tryx": (2, 0, 0), "unlockx": (3, p, coin), "forx": (4, a, 0), "untilx": (5, a, 0),
            "locks": (11, 0, 0), "trys": (12, 0, 0), "unlocks": (13, p, 0), "fors": (14, a, 0), "untils": (15, a, 0)}[op]


def map_trace(scenario, trace):
    """Implementation trace -> dict(machine=, events=[gallina], results=[(kind,f,res,t)], jn=[gallina], joins=[...],
    tl=[gallina], reads=[...]).  Purely syntactic: ">f@t" is ERun f t; an operation announced by "c" starts at
    once unless the fiber yields first ("^"), in which case it starts at the fiber's next resume; "?i/n" is the
    pick of the notify_one inside the operation just started."""
    cls = scenario.split("/")[0]
    machine = MACHINE.get(cls)
    evs, results, jn, joins, tl, reads = [], [], [], [], [], []
    cjn, ctl = [], []
    slots = [0, 1, 2, 3, 4]
    seen_slots = None
    VAR = {"a": 0, "b": 1, "c": 2, "d": 3, "e": 4}
    pending = {}      # fiber -> (op, arg) announced, not started
    yielded = set()
    last_op = {}      # fiber -> index in evs of its last started operation (to attach picks)
    in_join = {}      # fiber -> child
    now = 0
    toks = [t for t in trace.split(";") if t]

    def start(f):
        op, arg = pending.pop(f)
        if op == "sleep":
            if machine in ("Rc", "Sh"):
                return   # sleeping is not an operation of the lock machines: the fiber is idle, time passes by ERun
            arg = now + arg
        last_op[f] = len(evs)
        evs.append([f, op, arg, None, 0])

    for idx, tok in enumerate(toks):
        m = TOK.match(tok)
        if not m:
            raise ValueError("unknown trace token " + tok)
        if m.group(1):
            f, now = fib(m.group(1)), int(m.group(2))
            evs.append(("run", f, now))
            if f in in_join:
                jn.append("Jn.ERun %d" % f)
                cjn.append("O %d 4 0 0" % f)
            if f in yielded:
                yielded.discard(f)
                start(f)
        elif m.group(3):
            f = fib(m.group(3))
            if f not in pending:
                raise ValueError("yield marker without an announced operation: " + tok)
            yielded.add(f)
        elif m.group(5):
            f = fib(m.group(5))
            if f not in last_op or evs[last_op[f]][3] is not None:
                raise ValueError("pick without an operation to attach it to: " + tok)
            evs[last_op[f]][3] = int(m.group(6))
        elif m.group(8):
            f, txt = fib(m.group(8)), m.group(9)
            w = txt.split()
            if w[0] == "c":
                op = w[1]
                arg = int(w[2]) if len(w) > 2 else None
                if op == "spawn":
                    jn.append("Jn.ESpawn %d %d" % (f, arg))
                    cjn.append("O %d 1 %d 0" % (f, arg))
                elif op == "join":
                    jn.append("Jn.EJoin %d %d" % (f, arg))
                    cjn.append("O %d 3 %d 0" % (f, arg))
                    in_join[f] = arg
                elif op == "detach":
                    jn.append("Jn.EDetach %d %d" % (f, arg))
                    cjn.append("O %d 5 %d 0" % (f, arg))
                elif op == "yield":
                    pass
                else:
                    if machine is None and op != "sleep":
                        raise ValueError("operation %s in a scenario without a lock machine" % op)
                    pending[f] = (op, arg)
                    nxt = toks[idx + 1] if idx + 1 < len(toks) else ""
                    if nxt != "%s:^" % m.group(8):
                        start(f)
            elif w[0] == "r":
                op = w[1]
                if op == "join":
                    joins.append((f, in_join.pop(f), int(w[2])))
                elif op in ("detach", "yield"):
                    pass
                elif op == "sleep" and machine in ("Rc", "Sh"):
                    pass
                else:
                    k = RES_KIND[op]
                    results.append((k, f, int(w[2]), int(w[3]) if k in TIMED_RES else 0))
            elif w[0] == "exit":
                jn.append("Jn.EExit %d" % f)
                cjn.append("O %d 2 0 0" % f)
            elif w[0] == "slots":
                slots = [int(x) for x in w[1:6]]
                seen_slots = tuple(slots)
            elif w[0] == "dflt":
                tl.append("Tl.EDefault %d %d" % (int(w[1]), int(w[2])))
                ctl.append("O %d 3 %d %d" % (f, int(w[1]), int(w[2])))
            elif w[0] in ("seta", "setb", "setc", "setd", "sete"):
                x = slots[VAR[w[0][3]]]
                tl.append("Tl.ESet %d %d %d" % (f, x, int(w[1])))
                ctl.append("O %d 1 %d %d" % (f, x, int(w[1])))
            elif w[0] in ("geta", "getb", "getc", "getd", "gete"):
                x = slots[VAR[w[0][3]]]
                tl.append("Tl.EGet %d %d" % (f, x))
                ctl.append("O %d 2 %d 0" % (f, x))
                reads.append((f, x, int(w[1])))
            else:
                raise ValueError("unknown harness event " + tok)
        elif m.group(14):
            f = fib(m.group(14))
            if f not in last_op:
                raise ValueError("coin without an operation to attach it to: " + tok)
            evs[last_op[f]][4] = int(m.group(15))
        elif m.group(10):
            pass  # the runtime's own "<fiber>:<op>@<loc>=<value>" record of a completed wrapped operation
    out, cout = [], []
    mach = machine or "Mx"
    for e in evs:
        if e[0] == "run":
            out.append("%s.ERun %d %d" % (mach, e[1], e[2]))
            cout.append("R %d %d" % (e[1], e[2]))
        else:
            out.append("%s.EOp %d (%s)" % (mach, e[0], gallina_op(mach, e[1], e[2], e[3], e[4])))
            cout.append("O %d %d %d %d" % ((e[0],) + compact_op(mach, e[1], e[2], e[3], e[4])))
    return dict(machine=mach, events=out, cevents=cout, results=results, jn=jn, cjn=cjn, joins=joins, tl=tl, ctl=ctl,
                reads=reads, slots=seen_slots)


def nontrivial(trace):
    """contended: some fiber blocked inside an operation (it was switched out between the announcement of an
    operation and its return without having yielded) or a notify had a choice of at least two waiters"""
    if re.search(r"\?\d+/([2-9]|\d\d)", trace):
        return True
    toks = [t for t in trace.split(";") if t]
    open_op = {}
    for i, t in enumerate(toks):
        m = re.match(r"(f\d+):!c (lock|for|until|cv)", t)
        if m:
            open_op[m.group(1)] = i
        m = re.match(r"(f\d+):!r ", t)
        if m:
            open_op.pop(m.group(1), None)
        m = re.match(r">(\w+)@", t)
        if m and i > 0:
            for f, j in open_op.items():
                # f was inside an operation when somebody was resumed, and f's last token before was not a yield
                prev = [x for x in toks[j:i] if x.startswith(f + ":")]
                if prev and not prev[-1].endswith("^") and f != m.group(1):
                    return True
    return False


# ------------------------------------------------------------------------------------------------ workers
FAIL_KEY = [("deadlock", "deadlock"), ("incompatible holders", "incompatible"), ("unjustified failure", "unjustified"),
            ("assert it == _sleep_list.end()", "sleepmap"), ("assert r &&", "twice"), ("timed wait ended early", "early"),
            ("sleep_for", "early"), ("join returned before", "join"), ("thread-local", "tls"), ("assert", "assert")]
ORDER = ["incompatible", "deadlock", "unjustified", "early", "join", "tls", "twice", "sleepmap", "assert", "other"]


def fail_key(scenario, fail):
    cls = scenario.split("/")[0]
    for pat, k in FAIL_KEY:
        if pat in fail:
            return "%s:%s" % (cls, k)
    return "%s:other" % cls


class Trie:
    """prefix tree of compact event sequences; children and leaves keep insertion order"""

    def __init__(self):
        self.root = {}
        self.leaves = []   # leaf payloads in the order run_trie reports them (computed by emit)
        self.count = 0

    def add(self, events, payload):
        d = self.root
        for e in events:
            nxt = d.get(e)
            if nxt is None:
                nxt = d[e] = {}
            d = nxt
        d.setdefault(None, []).append(payload)
        self.count += 1

    def emit(self):
        """-> Gallina text of the trie; fills self.leaves (one entry = list of payloads sharing that leaf)"""
        self.leaves = []
        out = []
        # iterative pre-order emission: Alt a (Alt b c), Seq e t, Leaf
        def node(d):
            alts = []
            if None in d:
                alts.append(None)
            alts += [k for k in d if k is not None]
            return alts
        def rec(d):
            alts = node(d)
            for i, k in enumerate(alts):
                last = i == len(alts) - 1
                if not last:
                    out.append("(Alt ")
                if k is None:
                    self.leaves.append(d[None])
                    out.append("Leaf")
                else:
                    out.append("(Seq (%s) " % k)
                    rec(d[k])
                    out.append(")")
                if not last:
                    out.append(" ")
            out.append(")" * (len(alts) - 1))
        rec(self.root)
        return "".join(out)


HEADER = ("From Coq Require Import NArith List. Import ListNotations.\n"
          "From YV Require Import model.FiberSync model.FiberSyncObs gen.FiberSyncSource.\n"
          "Set Printing Depth 100000000.\nSet Printing Width 1000000.\n")
RUNNER = {"Mx": "mx_trie source_variant", "Rc": "rc_trie source_variant", "Sh": "sh_trie source_variant",
          "Jn": "jn_trie", "Tl": "tl_trie"}
CHUNK = 2500
DFS_CAP = 40000   # executions per scenario; the exhaustive sets are chosen to stay far below


def check_lock(r, t, mt):
    ubf, two, n = r[1], r[2], r[3]
    got = [tuple(r[4 + 4 * i: 8 + 4 * i]) for i in range(n)]
    if got != mt["results"]:
        return "model predicts results %s, implementation showed %s" % (got, mt["results"])
    impl_ub = "assert it == _sleep_list.end()" in t["fail"]
    if bool(ubf) != impl_ub and not (ubf and t["fail"]):
        # only the first failure of an execution is reported, so a model-side lookup failure may hide behind another one
        return "model says the sleep-map lookup failed=%d, implementation assert=%s" % (ubf, impl_ub)
    if "incompatible holders" in t["fail"] and not two:
        return "implementation had incompatible holders, the model never has"
    return None


def check_join(r, t, mt):
    got = [tuple(r[2 + 3 * i: 5 + 3 * i]) for i in range(r[1])]
    return None if got == mt["joins"] else "model predicts joins %s, implementation showed %s" % (got, mt["joins"])


def check_tls(r, t, mt):
    got = [tuple(r[2 + 3 * i: 5 + 3 * i]) for i in range(r[1])]
    return None if got == mt["reads"] else "model predicts thread-local reads %s, implementation showed %s" % (got, mt["reads"])


def work(args):
    """one slice of scenarios: explore on the implementation, map, replay in Coq, compare.  Runs in its own process."""
    import sys
    sys.setrecursionlimit(100000)
    exe, mode, extra, names, tag, do_corr = args
    tmp = tempfile.mkdtemp(prefix="c18.%s." % tag, dir="/var/tmp")
    p = os.path.join(tmp, "list.txt")
    open(p, "w").write("\n".join(names) + "\n")
    rows, out, err, rc = runner.run_harness(exe, ["--mode", mode, "--param", "list=" + p] + extra, timeout=1700)
    os.remove(p)
    os.rmdir(tmp)
    res = dict(heads=[r for r in rows if "mode" in r], crashes=[], fails=[], bad=[], n_traces=0, n_valid=0,
               n_nontrivial=0, samples=[], replays=0, vocab=[], slots=[])
    if rc != 0:
        res["crashes"].append((rc, (out[-700:] + "\n" + (err or "")[-500:])))
    traces = [r for r in rows if "trace" in r]
    res["n_traces"] = len(traces)
    best = {}
    for t in traces:
        if t["fail"]:
            k = fail_key(t["scenario"], t["fail"])
            if k not in best or len(t["choices"]) < len(best[k]["choices"]):
                best[k] = t
    res["fails"] = list(best.values())
    res["failing_executions"] = sum(t["count"] for t in traces if t["fail"])
    if not do_corr:
        return res
    tbad = set()
    jobs = []          # (machine, Trie) in the order of the Eval commands
    cur = {}

    def put(mach, events, payload):
        tr = cur.get(mach)
        if tr is None or tr.count >= CHUNK:
            tr = cur[mach] = Trie()
            jobs.append((mach, tr))
        tr.add(events, payload)

    for ti, t in enumerate(traces):
        try:
            mt = map_trace(t["scenario"], t["trace"])
        except (ValueError, KeyError) as e:
            res["vocab"].append("%s in %s: %s" % (e, t["scenario"], t["trace"]))
            tbad.add(ti)
            continue
        cls = t["scenario"].split("/")[0]
        if mt["slots"] is not None and list(mt["slots"]) not in res["slots"]:
            res["slots"].append(list(mt["slots"]))
        if cls in MACHINE and mt["cevents"]:
            put(mt["machine"], mt["cevents"], (ti, mt, check_lock))
        if mt["cjn"]:
            put("Jn", mt["cjn"], (ti, mt, check_join))
        if mt["ctl"]:
            put("Tl", mt["ctl"], (ti, mt, check_tls))
    body = [HEADER]
    for mach, tr in jobs:
        body.append("Eval vm_compute in (%s (%s))." % (RUNNER[mach], tr.emit()))
    plan = jobs
    case = "c18_%d_%s" % (os.getpid(), tag)
    ok, cout = vlib.coqc_eval("\n".join(body) + "\n", case, timeout=1700)
    try:
        os.remove(os.path.join(vlib.COQ, "cases", case + ".v"))
    except OSError:
        pass
    blocks = re.findall(r"=\s*(\[.*?\])\s*:\s*list \(list nat\)", cout.replace("\n", " "))
    if not ok or len(blocks) != len(plan):
        res["bad"].append(dict(scenario=names[0], kind="replay", why="Coq evaluation failed: " + cout[-1500:], trace="", choices=""))
        return res
    for (mach, tr), blk in zip(plan, blocks):
        outs = [[int(x) for x in re.findall(r"\d+", lst)] for lst in re.findall(r"\[([\d; ]*)\]", blk)]
        if len(outs) != len(tr.leaves):
            res["bad"].append(dict(scenario=names[0], kind=mach, why="Coq returned %d outcomes for %d leaves" % (len(outs), len(tr.leaves)), trace="", choices=""))
            continue
        res["replays"] += len(outs)
        for r, payloads in zip(outs, tr.leaves):
            for ti, mt, chk in payloads:
                t = traces[ti]
                if r[0] == 0:
                    src = mt["events"] if mach in ("Mx", "Rc", "Sh") else mt["jn"] if mach == "Jn" else mt["tl"]
                    why = "model rejects event #%d: %s" % (r[1], src[r[1]] if r[1] < len(src) else "?")
                else:
                    why = chk(r, t, mt)
                if why:
                    tbad.add(ti)
                    if len(res["bad"]) < 6:
                        res["bad"].append(dict(scenario=t["scenario"], kind=mach, why=why, trace=t["trace"], choices=t["choices"]))
    res["n_bad"] = len(tbad)
    for ti, t in enumerate(traces):
        if ti in tbad:
            continue
        res["n_valid"] += 1
        if nontrivial(t["trace"]):
            res["n_nontrivial"] += 1
            if len(res["samples"]) < 2:
                res["samples"].append(dict(scenario=t["scenario"], trace=t["trace"], choices=t["choices"],
                                           executions=t["count"], fail=t["fail"],
                                           model_events="; ".join(map_trace(t["scenario"], t["trace"])["events"])))
    return res


JOBS = max(1, int(os.environ.get("VERIF_JOBS", "4")))   # the machine is shared: four workers unless told otherwise


def run_set(exe, mode, extra, names, tag, do_corr=True):
    n = max(1, min(JOBS, vlib.NPROC, (len(names) + 3) // 4))
    slices = [names[i::n] for i in range(n)]
    with concurrent.futures.ProcessPoolExecutor(max_workers=n) as ex:
        return list(ex.map(work, [(exe, mode, extra, sl, "%s%d" % (tag, i), do_corr) for i, sl in enumerate(slices)]))


# ------------------------------------------------------------------------------------------------ main
def main(ck):
    ck.assumptions = [
        "FIBER backend, explorer-owned scheduling: a fiber switch happens only where a fiber blocks, exits, or yields in front of a wrapped operation; all random draws (extra sleep time, SharedMutex::unlock's coin) return 0",
        "the scheduler tick is the default 10 ns (FiberSync.tick); virtual time is read through yaclib_std::chrono::steady_clock",
        "client programs are well-formed: one lock per scenario, every successful acquisition is followed by its release, no recursive acquisition of a non-recursive lock, condition-variable programs release every waiter",
        "not modelled: run-queue order, stacks/contexts, FiberBase exception transport, condition_variable_any, the THREAD backend wrappers; yaclib_std::condition_variable::wait_for/wait_until without predicate do not link on the pinned tree (CVStatusFrom declared constexpr, defined in a .cpp) and are exercised through the predicate overloads",
    ]
    ck.cov["trusted_base"] = [
        "Coq 8.16.1 kernel + vm_compute (trace replay, _refuted witnesses, Examples)",
        "Print Assumptions of every theorem in Properties_C18.v / Properties_C18_Source.v: Closed under the global context",
        "checks/c18.py: variant_of_source (text patterns for nine places + literal check of the unparameterised functions) and the syntactic trace-to-event mapping; FiberSyncObs.v decoders",
        "harness/h_c18.cpp oracle and its marker hooks (chained onto the YACLIB_VERIF choose/resume hooks)",
        "YACLIB_VERIF hooks in the fault layer; explorer runtime harness/verif_rt.hpp",
    ]
    # ---- translator
    try:
        variant = variant_of_source(vlib.REPO)
    except (Unrecognised, OSError) as e:
        ck.broken.append(dict(name="translation of the fiber lock sources into FiberSync variant flags", detail=str(e)))
        variant = None
    if variant is not None:
        write_gen(variant)
        if variant.get("tl_text"):
            ck.broken.append(dict(name="translation of the thread-local storage sources (FiberBase::GetTLS/SetTLS, "
                                       "thread_local_proxy) into the Tl machine", detail=variant["tl_text"]))
        ck.cov["source_variant"] = {k: variant[k] for k in FLAGS + ["tl_one_counter"]}
    # ---- proofs: the generic development, then the instantiation at the tree under test (one file per class, so
    # that a missing fix breaks exactly the theorems about its class)
    closed, axioms = 0, set()
    files = ["props/Properties_C18.v"]
    if variant is not None:
        files += ["props/Properties_C18_Source%s.v" % m for m in ("Mx", "Rc", "Sh", "Sl", "Tl")]
    for i, f in enumerate(files):
        ck.prove(f, ["model/FiberSyncObs.vo", "gen/FiberSyncSource.vo"] if i == 0 else [])
        pa = ck.cov.get("print_assumptions", {})
        closed += pa.get("closed", 0)
        axioms |= set(pa.get("axioms", []))
    ck.cov["print_assumptions"] = dict(closed=closed, axioms=sorted(axioms))
    ck.cov["checker_cmd"] = ("cd /verif/coq && make -k -j16 props/Properties_C18.vo props/Properties_C18_Source{Mx,Rc,Sh,Sl,Tl}.vo"
                             "  (coqc 8.16.1 kernel; every property theorem followed by Print Assumptions; "
                             "gen/FiberSyncSource.v regenerated from the tree under test first)")
    if variant is not None and not all(variant[k] for k in FLAGS + ["tl_one_counter"]):
        missing = [k for k in FLAGS + ["tl_one_counter"] if not variant[k]]
        for b_ in ck.broken:
            if "Properties_C18_Source" in b_["name"] or "source_" in b_["name"]:
                b_["detail"] = ("the tree under test still has the pinned text at: %s\n" % ", ".join(missing)) + b_["detail"]
    # ---- implementation + correspondence
    exe, b = vlib.compile_harness("F", [HARNESS], "c18")
    tot = dict(evaluations=0, scenarios=0, n_traces=0, n_valid=0, n_nontrivial=0, replays=0, failing=0)
    fails, bad, samples, vocab, slots_seen = {}, [], [], [], []
    exhaustive = True
    for si, (label, mode, extra, names) in enumerate(scenario_sets(ck.tier, ck.seed)):
        results = run_set(exe, mode, extra, names, "%s%d_" % (ck.tier[0], si), do_corr=variant is not None)
        hs = [h for r in results for h in r["heads"]]
        if mode == "dfs" and "--pb" not in extra:
            exhaustive = exhaustive and len(hs) == len(names) and all(h["exhaustive"] for h in hs)
        ck.notes.append("%s: %d scenarios, %d executions" % (label, len(hs), sum(h["executions"] for h in hs)))
        tot["evaluations"] += sum(h["executions"] for h in hs)
        tot["scenarios"] += len(hs)
        for r in results:
            for rc, txt in r["crashes"]:
                m = re.search(r"CRASH signal=(\d+) choices=([\d,]*)(?: scenario=(\S+))?", txt)
                ck.hits.append(dict(what="harness crashed or hung (rc=%d) %s" % (rc, txt.strip()[-400:]), key="crash",
                                    replay=dict(harness="h_c18", scenario=m.group(3) if m else None,
                                                choices=m.group(2).rstrip(",") if m else None)))
            for t in r["fails"]:
                k = fail_key(t["scenario"], t["fail"])
                if k not in fails or len(t["choices"]) < len(fails[k]["choices"]):
                    fails[k] = t
            tot["failing"] += r.get("failing_executions", 0)
            for k in ("n_traces", "n_valid", "n_nontrivial", "replays"):
                tot[k] += r[k]
            bad += r["bad"]
            vocab += r["vocab"]
            slots_seen += [x for x in r["slots"] if x not in slots_seen]
            samples += r["samples"]
    for k in sorted(fails, key=lambda k: (ORDER.index(k.split(":")[1]), len(fails[k]["choices"]))):
        t = fails[k]
        ck.hits.append(dict(what="%s: %s" % (t["scenario"], t["fail"]), key=k,
                            replay=dict(harness="h_c18", scenario=t["scenario"], choices=t["choices"], trace=t["trace"])))
    ck.cov["evaluations"] = tot["evaluations"]
    ck.cov["scenarios"] = tot["scenarios"]
    ck.cov["exhaustive"] = False  # part 1 is exhaustive (exhaustive_part_complete), the random part is not
    ck.cov["exhaustive_part_complete"] = exhaustive
    ck.cov["failing_executions"] = tot["failing"]
    ck.cov["traces_validated_against_impl"] = tot["n_valid"]
    ck.cov["distinct_traces"] = tot["n_traces"]
    ck.cov["model_replays"] = tot["replays"]
    ck.cov["distinct_nontrivial"] = tot["n_nontrivial"]
    ck.cov["rule"] = ("scenario = one real yaclib_std object + k fibers each running a well-formed program (blocks of acquire/"
                      "body/release, or wait/notify programs); part 1: exhaustive DFS over every scheduler decision for 2 fibers "
                      "(and 3 in the thorough tier); part 2: seeded random schedules for 3-4 fibers; traces are distinct by their "
                      "full token sequence (resume markers with virtual time, yields, notify picks, calls, results); non-trivial = "
                      "some fiber blocked inside an operation while another ran, or a notify_one chose among >= 2 parked fibers; "
                      "every trace is replayed through the FiberSync machine of its class with source_variant (plus the join "
                      "machine and, for tls scenarios, the thread-local machine) and must be accepted with equal results; "
                      "distinct_nontrivial counts validated non-trivial traces")
    ck.cov["samples"] = samples[:4]
    if variant is not None and slots_seen:
        # the slot numbers the real proxies got (int*, int*, long*, int*, long*) against the model's numbering
        ok, out = vlib.coqc_eval(HEADER + "Eval vm_compute in (Tl.slots source_tl_one_counter [0; 0; 1; 0; 1]).\n", "c18_slots_%d" % os.getpid())
        try:
            os.remove(os.path.join(vlib.COQ, "cases", "c18_slots_%d.v" % os.getpid()))
        except OSError:
            pass
        m = re.search(r"=\s*\[([\d; ]*)\]", out)
        predicted = [int(x) for x in re.findall(r"\d+", m.group(1))] if ok and m else None
        ck.cov["tls_slots"] = dict(observed=slots_seen, model=predicted)
        if [predicted] != slots_seen:
            ck.broken.append(dict(name="correspondence FiberSync (Tl.slots) vs implementation on the thread-local scenarios",
                                  detail="the model numbers the three proxies %s, the implementation %s" % (predicted, slots_seen)))
    for v in vocab[:3]:
        ck.gen_obligation("correspondence FiberSync (trace vocabulary)", False, v)
    for b_ in bad[:8]:
        ck.broken.append(dict(name="correspondence FiberSync (%s machine) vs implementation on %s" % (b_["kind"], b_["scenario"]),
                              detail="%s\ntrace: %s\nchoices: %s" % (b_["why"], b_["trace"], b_["choices"])))
    if variant is not None and tot["n_traces"] == 0:
        ck.broken.append(dict(name="correspondence FiberSync vs implementation", detail="harness produced no traces"))


def replay(ck, path):
    d = json.load(open(path))
    rp = d.get("replay") or {}
    if not rp.get("scenario"):
        print("nothing to replay: %s" % json.dumps(d)[:2000])
        return 0
    exe, b = vlib.compile_harness("F", [HARNESS], "c18")
    rows, out, err, rc = runner.run_harness(exe, ["--mode", "replay", "--exact", rp["scenario"], "--choices", rp["choices"]])
    print(out)
    bad = any(r.get("fail") for r in rows if "trace" in r)
    return 1 if bad or rc != 0 else 0
