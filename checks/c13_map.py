"""C13: plans, the syntactic mapping from implementation traces to Await.v events, and the comparison of the model's
predictions with what the harness observed.  No knowledge of the protocol lives here: tokens become events one by one;
the only reconstruction is CAS success = "the word changed" (the FIBER backend is sequentially consistent)."""
import re

THREAD_BASE = {"main": 0}


def tid(name):
    if name == "main":
        return 0
    m = re.fullmatch(r"([PCf])(\d+)", name)
    if not m:
        raise ValueError("unknown thread " + name)
    return {"P": 10, "C": 40, "f": 100}[m.group(1)] + int(m.group(2))


# ---------------------------------------------------------------- plans

class Plan:
    def __init__(self, text):
        self.text = text
        self.os, self.xs, self.cs = [], [None], []
        for tok in text.split():
            f = tok.split(":")
            if tok[0] == "O":
                k = f[1]
                d = dict(kind=k.rstrip("0123456789"), x=int(re.sub(r"\D", "", k) or 0), outcome=f[2], when=f[3])
                d["shared"] = d["kind"] in ("S", "RS", "SO")
                d["lazy"] = d["kind"] == "LT"
                self.os.append(d)
            elif tok[0] == "X":
                self.xs.append(f[1])
            elif tok[0] == "C":
                prog = []
                for s in f[3].split("."):
                    if not s:
                        continue
                    m = re.fullmatch(r"([a-z]+)(.*)", s)
                    op, rest, x = m.group(1), m.group(2), 0
                    if op in ("an", "dn"):
                        x, _, rest = rest.partition("_")
                        x = int(x)
                    elif op == "on":
                        x, rest = int(rest), ""
                    objs = [int(o) for o in rest.split("+")] if rest else []
                    prog.append(dict(op=op, x=x, os=objs))
                self.cs.append(dict(ret=f[1], starter=f[2], prog=prog))
            elif tok == "D":
                pass
            else:
                raise ValueError("bad plan token " + tok)
        self.next = len(self.os)
        for c in self.cs:
            self.os.append(dict(kind="Own", x=0, outcome="-", when="-", shared=c["ret"] == "S", lazy=c["ret"] == "T"))

    def own(self, c):
        return self.next + c

    # ---- the model's configuration
    def coq_apt(self, st):
        op, x, os = st["op"], st["x"], st["os"]
        lst = "[" + "; ".join(str(o) for o in os) + "]"
        form = {"i": "FInl", "s": "FSticky", "n": "(FOn %d)" % x}
        if op == "co":
            return "PCo %d false" % os[0]
        if op == "cc":
            return "PCo %d true" % os[0]
        if op == "tk":
            return "PTask %d false" % os[0]
        if op == "tc":
            return "PTask %d true" % os[0]
        if op == "tl":
            return "PTaskL %d" % os[0]
        if op in ("ai", "as", "an"):
            if len(os) == 1:
                return "PAwait1 %s %d" % (form[op[1]], os[0])
            return "PAwaitN %s %s" % (form[op[1]], lst)
        if op in ("di", "ds", "dn"):
            return "PAwaitN %s %s" % (form[op[1]], lst)
        if op == "on":
            return "POn %d" % x
        if op in ("y", "yy"):
            return "PYield"
        if op == "cur":
            return "PCurrent"
        raise ValueError("bad step " + op)

    def coq_config(self):
        b = lambda v: "true" if v else "false"
        os = []
        for i, o in enumerate(self.os):
            if o["kind"] == "Own":
                os.append("OC %s %s %d" % (b(o["shared"]), b(o["lazy"]), i - self.next))
            else:
                os.append("OX %s %s %d" % (b(o["shared"]), b(o["lazy"]), o["x"]))
        cs = ["CO [%s] %d" % ("; ".join(self.coq_apt(s) for s in c["prog"]), self.own(i)) for i, c in enumerate(self.cs)]
        return "[%s] [%s] %d" % ("; ".join(os), "; ".join(cs), len(self.xs))


# ---------------------------------------------------------------- traces -> events

def coq_res(txt):
    if txt[0] == "v":
        return "(RVal %d)" % int(txt[1:])
    if txt[0] == "e":
        return "(RErr %d)" % int(txt[1:])
    if txt[0] == "s":
        return "RStop"
    raise ValueError("bad value " + txt)


def to_events(trace):
    """-> (events, observed) where observed = dict(res={c: [(k, val, exec, thread)]}, result={c: val})."""
    evs = []
    obs = dict(res={}, result={}, local={}, frame={})
    prev = {}
    for tok in trace.split(";"):
        if not tok:
            continue
        who, _, rest = tok.partition(":")
        t = tid(who)
        if rest.startswith("!"):
            f = rest[1:].split()
            k = f[0]
            if k == "end":
                break
            if k == "spawn":
                evs.append("ESpawn %d %s" % (t, f[1]))
            elif k == "aw":
                evs.append("EBegin %d %s" % (t, f[1]))
            elif k == "res":
                c = int(f[1])
                evs.append("ERes %d %d" % (t, c))
                obs["res"].setdefault(c, []).append((int(f[2]), f[3], int(f[4]), t))
            elif k == "ret":
                evs.append("ERet %d %s %s" % (t, f[1], coq_res(f[2])))
            elif k == "local~":
                evs.append("ELocal %d %s" % (t, f[1]))
                obs["local"][int(f[1])] = obs["local"].get(int(f[1]), 0) + 1
            elif k == "frame~":
                evs.append("EFree %d %s" % (t, f[1]))
                obs["frame"][int(f[1])] = obs["frame"].get(int(f[1]), 0) + 1
            elif k in ("submit", "call", "drop"):
                if int(f[2]) >= 0:
                    evs.append("%s %d %s %s" % ({"submit": "ESubmit", "call": "ECall", "drop": "EDrop"}[k], t, f[1], f[2]))
            elif k == "set":
                evs.append("ESet %d %s %s" % (t, f[1], coq_res(f[2])))
            elif k == "result":
                obs["result"][int(f[1])] = f[2]
            else:
                raise ValueError("unknown harness event " + tok)
            continue
        m = re.fullmatch(r"([a-z_]+)@([wkn])(\d+)=(\w+)", rest)
        if not m:
            raise ValueError("unknown trace token " + tok)
        op, kind, idx, val = m.group(1), m.group(2), int(m.group(3)), m.group(4)
        if kind == "n":
            continue                                    # the reference counter of a shared core (C06's subject)
        if kind == "w":
            if op == "load":
                evs.append("ELd %d %d %s" % (t, idx, "OE" if val == "E" else "OR" if val == "R" else "OL"))
            elif op in ("compare_exchange_strong", "compare_exchange_weak"):
                evs.append("ECas %d %d %s" % (t, idx, "true" if val != prev.get(idx, "E") else "false"))
            elif op == "store":
                evs.append("ESt %d %d" % (t, idx))
            elif op == "exchange":
                evs.append("EXchg %d %d" % (t, idx))
            else:
                raise ValueError("unexpected operation on a callback word: " + tok)
            prev[idx] = val
        else:
            if op == "fetch_sub":
                evs.append("ECSub %d %d %d" % (t, idx, int(val)))
            elif op == "load":
                evs.append("ECLd %d %d %d" % (t, idx, int(val)))
            else:
                raise ValueError("unexpected operation on an awaiter counter: " + tok)
    return evs, obs


# ---------------------------------------------------------------- reading the model's answer

def parse_obs(r):
    """obs_nat output -> dict(accepted, rejected_at, quiescent, cos=[...])"""
    if r[0] == 0:
        return dict(accepted=False, at=r[1])
    out = dict(accepted=True, quiescent=r[1], cos=[])
    i, n = 3, r[2]
    for _ in range(n):
        co = dict(state=r[i], pc=r[i + 1], dropped=r[i + 2], ldtors=r[i + 3], ffrees=r[i + 4], llive=r[i + 5],
                  result=(r[i + 6], r[i + 7]))
        i += 8
        nres = r[i]
        i += 1
        co["res"] = []
        for _ in range(nres):
            rec = r[i:i + 10]
            i += 10
            co["res"].append(dict(k=rec[0], how=(rec[1], rec[2]), thr=rec[3], ok=rec[4], val=tuple(rec[5:8]),
                                  exec=rec[8], own=rec[9]))
        nrd = r[i]
        i += 1
        co["readys"] = r[i:i + nrd]
        i += nrd
        out["cos"].append(co)
    return out


def val_code(txt):
    """observed value text -> the model's (consuming?, tag, n)"""
    if txt == "-":
        return (0, 0, 0)
    if txt[0] == "v":
        return (1, 1, int(txt[1:]))
    if txt[0] == "e":
        return (1, 2, int(txt[1:]))
    if txt == "s":
        return (1, 3, 0)
    return (1, 0, 0)          # garbage


def compare(plan, obs, model):
    """-> list of disagreements between the model's prediction and the implementation's observations"""
    bad = []
    if not model["accepted"]:
        return ["model rejects event #%d" % model["at"]]
    if not model["quiescent"]:
        bad.append("the implementation run is over but the model is not quiescent")
    for c, co in enumerate(model["cos"]):
        seen = obs["res"].get(c, [])
        pred = [(r["k"], r["val"], r["exec"], r["thr"]) for r in co["res"]]
        got = [(k, val_code(v), ex, t) for (k, v, ex, t) in seen]
        if pred != got:
            bad.append("coroutine %d: model predicts resumptions (k, value, executor, thread) %s, implementation showed %s" % (c, pred, got))
        if any(r["ok"] != 1 for r in co["res"]):
            bad.append("coroutine %d: the model resumes it before everything awaited is complete" % c)
        if any(x == 2 for x in co["readys"]):
            bad.append("coroutine %d: await_ready answered true before the result was published" % c)
        if c in obs["result"]:
            want = val_code(obs["result"][c])[1:]
            if tuple(co["result"]) != want:
                bad.append("coroutine %d: model predicts Result %s, implementation holds %s" % (c, co["result"], obs["result"][c]))
        if co["state"] not in (0, 14) and not bad:
            bad.append("coroutine %d is not finished in the model (state %d) at the end of the run" % (c, co["state"]))
        if co["state"] == 14:
            if co["ldtors"] != obs["local"].get(c, 0) or co["ffrees"] != obs["frame"].get(c, 0):
                bad.append("coroutine %d: model predicts %d/%d destructions of local/frame, implementation showed %d/%d" % (
                    c, co["ldtors"], co["ffrees"], obs["local"].get(c, 0), obs["frame"].get(c, 0)))
            if co["ldtors"] != 1 or co["ffrees"] != 1:
                bad.append("coroutine %d: local/frame destroyed %d/%d times" % (c, co["ldtors"], co["ffrees"]))
    return bad
