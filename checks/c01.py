"""C01 — Promise -> Future hand-off: exactly once, intact.
Proof: coq/props/Properties_C01.v (invariant of the Handoff LTS, all schedules, all values).
Tie:   every interleaving of the real Future/Promise code (FIBER backend, exhaustive DFS at atomic-operation
       granularity, 4 producer kinds x 18 consumer kinds) is replayed through Handoff.run inside Coq; the
       model must accept every event with the observed value and predict the observed callbacks/values.
Oracle (from the property text) runs inside the harness on every execution."""
import json, os, re
import vlib, runner

KIND = {"then_inline": "KAttach", "then_e": "KAttach", "detach_inline": "KAttach", "detach_e": "KAttach",
        "wait_then": "KAttach", "connect": "KConnect", "detach": "KSilent", "drop": "KSilent",
        "get_const": "KSilent", "wait": "KSilent", "get_move": "KGet", "peek_get_move": "KGet",
        "waitfor5_get": "KGet", "waitfor25_get": "KGet", "waitfor45_get": "KGet",
        "waitfor5_then": "KAttach", "waitfor25_then": "KAttach", "waitfor45_then": "KAttach", "fassign": "KSilent"}

WORD = {"E": "WE", "C": "WC", "R": "WR"}


def to_events(trace):
    """Implementation trace -> (Gallina event list, observed cbs, observed gots).  Purely syntactic, except that
    the value returned by an exchange / the success of a CAS is reconstructed from the previous value of the
    word (the FIBER backend is sequentially consistent)."""
    cur = "E"
    evs, cbs, gots, nontrivial = [], [], [], False
    p_started = c_started = p_done = c_done = False
    for tok in trace.split(";"):
        if not tok:
            continue
        who, _, rest = tok.partition(":")
        if who not in ("P", "C"):
            continue
        if rest.startswith("!"):
            txt = rest[1:]
            if txt.startswith("set "):
                evs.append("ESet %d" % int(txt[4:]))
            elif txt == "peek":
                evs.append("EPeekBegin")
            elif txt == "wait":
                evs.append("EWaitBegin")
            elif txt == "twait":
                evs.append("ETWaitBegin")
            elif txt.startswith("twret "):
                evs.append("ETWaitRet %s" % ("true" if txt[6:] == "1" else "false"))
            elif txt.startswith("got "):
                evs.append("EGot")
                gots.append(int(txt[4:]))
            elif txt.startswith("cb "):
                evs.append("ECb %s" % who)
                cbs.append(int(txt[3:]))
            elif txt == "notready":
                pass
            else:
                raise ValueError("unknown harness event " + tok)
            continue
        m = re.match(r"([a-z_]+)@w=([ECR])$", rest)
        if not m:
            raise ValueError("unknown trace token " + tok)
        op, val = m.group(1), m.group(2)
        if op == "load":
            evs.append("ELd %s %s" % (who, WORD[val]))
        elif op == "exchange":
            evs.append("EXchg %s" % WORD[cur])
            cur = val
        elif op == "compare_exchange_strong":
            ok = (cur != val)        # attach: E -> C; reset after a timed-out wait: C -> E; failure leaves the value
            evs.append("ECas %s" % ("true" if ok else "false"))
            cur = val
        else:
            raise ValueError("unexpected operation on the callback word: " + tok)
    return evs, cbs, gots


def nontrivial(trace):
    """A trace is contended when the two parties' operations on the word interleave: some operation of one
    party lies strictly between the first and the last word operation of the other."""
    ops = [t.split(":")[0] for t in trace.split(";") if "@w=" in t]
    for a, b in (("P", "C"), ("C", "P")):
        idx = [i for i, x in enumerate(ops) if x == a]
        if idx and any(x == b for x in ops[idx[0]:idx[-1]]):
            return True
    # the producer's store/exchange pair is split by a consumer operation
    toks = [t for t in trace.split(";") if t]
    try:
        i = next(k for k, t in enumerate(toks) if t.startswith("P:!set"))
        j = next(k for k, t in enumerate(toks) if t.startswith("P:exchange"))
        if any(t.startswith("C:") and "@w=" in t for t in toks[i:j]):
            return True
    except StopIteration:
        pass
    return False


def main(ck):
    ck.assumptions = [
        "FIBER backend: sequentially consistent, switches only at the wrapped yaclib_std operations (memory-order effects are C04's subject)",
        "the model is Handoff.v; the C++ below the callback word (Result storage, virtual dispatch, executors) is exercised, not modelled",
        "tracer reads the word's value through the YACLIB_VERIF after-hook (first 8 bytes of the atomic object)",
    ]
    ck.cov["trusted_base"] = [
        "Coq 8.16.1 kernel + vm_compute (used for replaying traces and in Example witnesses)",
        "Print Assumptions of every theorem in Properties_C01.v: Closed under the global context (no axioms)",
        "checks/c01.py trace-to-event mapping (syntactic) and harness/h_c01.cpp oracle",
        "YACLIB_VERIF hooks in the fault layer; FIBER scheduler and fiber atomics (C17-C19 are about those)",
    ]
    ok = ck.prove("props/Properties_C01.v", ["model/HandoffObs.vo"])
    # ---- implementation side: exhaustive exploration
    exe, b = vlib.compile_harness("F", [os.path.join(vlib.VERIF, "harness", "h_c01.cpp")], "c01")
    # twice: a fiber switch offered before every wrapped operation (the plain code that follows an operation runs in one
    # piece with it), then after every wrapped operation (a fiber can stop between its operation and the plain code
    # that follows it, e.g. a store into something it has just published)
    # "--weak 1": one injected spurious failure of a compare_exchange_weak per execution (the unique-future path has no
    # weak CAS as pinned, so this costs nothing there; a strong CAS weakened without a retry loop becomes a concrete input)
    rows, seen = [], set()
    for ya in ("before", "after"):
        rows_y, out, err, rc = runner.run_harness(exe, ["--mode", "dfs", "--yield-at", ya, "--weak", "1"])
        if rc != 0:
            m = re.search(r"CRASH signal=(\d+) choices=([\d,]*)", out + err)
            ck.hits.append(dict(what="harness crashed (rc=%d) %s" % (rc, (err or out)[-600:]),
                                key="crash", replay=dict(harness="h_c01", choices=m.group(2) if m else None, yield_at=ya)))
        for r in rows_y:
            if "trace" in r:
                if (r["scenario"], r["trace"]) in seen:
                    continue
                seen.add((r["scenario"], r["trace"]))
                r["yield_at"] = ya
            rows.append(r)
    heads = [r for r in rows if "mode" in r]
    traces = [r for r in rows if "trace" in r]
    ck.cov["evaluations"] = sum(h["executions"] for h in heads)
    ck.cov["exhaustive"] = bool(heads) and all(h["exhaustive"] for h in heads) and len(heads) == 2 * (5 * 13 + 5 * 6 * 4)
    ck.cov["scenarios"] = len(heads)
    for t in traces:
        if t["fail"]:
            ck.hits.append(dict(what="%s: %s" % (t["scenario"], t["fail"]), key=t["scenario"].split("/")[1].split("@")[0] + ":" + t["fail"][:40],
                                replay=dict(harness="h_c01", scenario=t["scenario"], choices=t["choices"], trace=t["trace"],
                                            yield_at=t.get("yield_at"))))
    # ---- correspondence: replay every distinct trace through the model inside Coq
    terms, metas = [], []
    for t in traces:
        if t["fail"]:
            continue
        ck_kind = KIND[t["scenario"].split("/")[1].split("@")[0]]
        try:
            evs, cbs, gots = to_events(t["trace"])
        except ValueError as e:
            ck.gen_obligation("correspondence Handoff (trace vocabulary)", False, "%s in %s" % (e, t["trace"]))
            continue
        terms.append("obs_nat %s [%s]" % (ck_kind, "; ".join(evs)))
        metas.append((t, cbs, gots))
    header = "From Coq Require Import List. Import ListNotations.\nFrom YV Require Import model.Handoff model.HandoffObs.\n"
    res, logs = vlib.coq_eval_cases(header, terms, "c01") if terms else ([], [])
    validated, nontriv, bad = 0, set(), []
    for (t, cbs, gots), r in zip(metas, res):
        if r is None:
            bad.append((t, "model evaluation failed"))
            continue
        if r[0] == 0:
            bad.append((t, "model rejects event #%d" % r[1]))
            continue
        term, frees, n = r[1], r[2], r[3]
        mcbs = r[4:4 + n]
        k = r[4 + n]
        mgots = r[5 + n:5 + n + k]
        nr = r[5 + n + k]
        mready = r[6 + n + k:6 + n + k + nr]
        if mcbs != [c + 1 for c in cbs] or mgots != [g + 1 for g in gots]:
            bad.append((t, "model predicts callbacks %s gets %s, implementation showed %s %s" % (mcbs, mgots, cbs, gots)))
        elif term != 1 or frees != 1:
            bad.append((t, "model not terminal/freed once at the end of the implementation run (terminal=%d frees=%d)" % (term, frees)))
        elif any(x == 2 for x in mready):
            bad.append((t, "Ready() answered true before the result was constructed"))
        else:
            validated += 1
            if nontrivial(t["trace"]):
                nontriv.add(t["scenario"] + "|" + t["trace"])
    ck.cov["traces_validated_against_impl"] = validated
    ck.cov["distinct_traces"] = len(traces)
    ck.cov["distinct_nontrivial"] = len(nontriv)
    ck.cov["rule"] = ("exhaustive DFS over every scheduling decision of the FIBER backend (switch before each wrapped atomic/"
                      "mutex/condvar operation, choice of next fiber, choice of notified waiter) for 4 producer kinds x 18 "
                      "consumer kinds; traces are deduplicated by their sequence of operations on the callback word plus harness "
                      "observations; non-trivial = the two parties' operations on the word interleave (one party's operation lies "
                      "strictly inside the other's first..last operation, or between the producer's store and exchange)")
    ck.cov["samples"] = [dict(scenario=t["scenario"], trace=t["trace"], choices=t["choices"], executions=t["count"])
                         for t in traces[:3] + [x for x in traces if x["scenario"] == "value/get_move"][:2]]
    for t, why in bad[:10]:
        ck.broken.append(dict(name="correspondence Handoff.run vs implementation on %s" % t["scenario"],
                              detail="%s\ntrace: %s\nchoices: %s" % (why, t["trace"], t["choices"])))
    if not traces:
        ck.broken.append(dict(name="correspondence Handoff.run vs implementation", detail="harness produced no traces\n" + (err or out)[-2000:]))


def replay(ck, path):
    d = json.load(open(path))
    rp = d.get("replay") or {}
    if not rp.get("scenario"):
        print("nothing to replay: %s" % json.dumps(d)[:2000])
        return 0
    exe, b = vlib.compile_harness("F", [os.path.join(vlib.VERIF, "harness", "h_c01.cpp")], "c01")
    rows, out, err, rc = runner.run_harness(exe, ["--mode", "replay", "--exact", rp["scenario"], "--choices", rp["choices"],
                                                  "--yield-at", rp.get("yield_at") or "before", "--weak", "1"])
    print(out)
    bad = any(r.get("fail") for r in rows if "trace" in r)
    return 1 if bad or rc != 0 else 0
