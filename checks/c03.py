"""C03 — everything owned is released exactly once, on every path.
Proof: coq/props/Properties_C03.v (Own.v pipeline lifetime model of any length; Handoff and RACounter layers).
Tie:   harness/h_c03.cpp runs real pipelines of instrumented functors/values (source fulfilled with value / error /
       exception or promise dropped; steps inline / through an accepting executor / through a rejecting executor;
       callbacks taking Result / value / throwing; finished by Get&&, dropping the future, a final DetachInline or
       Detach()) with the producer racing the consumer that builds the chain; every distinct trace is replayed
       through Own.run in Coq: same order of construction, attach, call, caller release, functor destruction,
       publication and final release; the model's counts must match the observed ones.
Oracle (property text, in the harness): every functor and value instance destroyed exactly once, none used after
       destruction, allocation balance zero at quiescence.  Thorough tier repeats under ASan+UBSan."""
import json, os, re
import vlib, runner


def to_events(trace, scen):
    fin = int(scen.split("/")[1][1:])
    n = len(re.findall(r"m\dk\d", scen))
    toks = [t for t in trace.split(";") if t]
    # aliases: operations traced on a word before it could be named
    alias = {}
    for t in toks:
        m = re.match(r"\w+:!alias (w\d+) (u\d+)$", t)
        if m:
            alias[m.group(2)] = m.group(1)
    evs = ["ENew"]
    calls, fds = [], 0
    pending_attach = None      # (fiber, predecessor index) after '!then'
    closed = False
    last_free_final = None
    # position of the last load@w_n=R: the final release
    for idx, t in enumerate(toks):
        m = re.match(r"(\w+):load@(w\d+|u\d+)=R$", t)
        if m:
            loc = alias.get(m.group(2), m.group(2))
            if loc == "w%d" % n:
                last_free_final = idx
    extra_core = False
    for idx, t in enumerate(toks):
        who, _, rest = t.partition(":")
        if rest.startswith("!"):
            txt = rest[1:]
            if txt.startswith("then "):
                i = int(txt[5:])
                evs.append("ENew")
                pending_attach = (who, i - 1)
            elif txt == "final":
                if fin == 2:
                    evs.append("ENew")          # the DetachInline step's core (a Detach core: its word is not named)
                    pending_attach = (who, n)
                    extra_core = True
                else:
                    evs.append("EClose")
                    closed = True
            elif txt.startswith("call "):
                i = int(txt[5:])
                calls.append(i)
                evs.append("ECall %d" % i)
            elif txt.startswith("fd "):
                fds += 1
                evs.append("EFnDtor %d" % int(txt[3:]))
            continue
        m = re.match(r"([a-z_]+)@(w\d+|u\d+)=(\w)$", rest)
        if not m:
            continue
        op, loc, val = m.group(1), alias.get(m.group(2), m.group(2)), m.group(3)
        if not loc.startswith("w"):
            continue
        j = int(loc[1:])
        if op == "exchange":
            evs.append("EPublish %d" % j)
        elif op == "compare_exchange_strong":
            if pending_attach and pending_attach == (who, j):
                evs.append("EAttach %s" % ("true" if val == "C" else "false"))
                pending_attach = None
            # else: the final consumer's attach (Wait event / Drop core) — not a chain event
        elif op == "load":
            if pending_attach and pending_attach == (who, j):
                if val == "R":
                    evs.append("EAttach false")
                    pending_attach = None
                # val == E: the CAS follows
            elif val == "R":
                if j == n and not extra_core:
                    if idx == last_free_final:
                        evs.append("EFinalFree")
                    # earlier loads of the last word: pre-check of the final consumer's attach
                else:
                    evs.append("EFreeCaller %d" % (j + 1))
    if extra_core:
        # the Detach core publishes and releases itself through its pre-stored Drop callback; its word is
        # not named by the harness, so these three events are synthesised (not observed)
        evs += ["EPublish %d" % (n + 1), "EClose", "EFinalFree"]
    cores = n + 1 + (1 if extra_core else 0)
    return evs, calls, fds, cores


def explore(ck, cfg, maxlen, mode_args):
    exe, b = vlib.compile_harness(cfg, [os.path.join(vlib.VERIF, "harness", "h_c03.cpp")], "c03")
    env = {"ASAN_OPTIONS": "detect_leaks=0:detect_stack_use_after_return=0:abort_on_error=0:exitcode=71"}
    rows, out, err, rc = runner.run_harness(exe, ["--param", "maxlen=%d" % maxlen] + mode_args, env=env, timeout=1500)
    ya = mode_args[mode_args.index("--yield-at") + 1] if "--yield-at" in mode_args else "before"
    for r in rows:
        r["yield_at"] = ya
        r["_args"] = mode_args
    if rc != 0:
        m = re.search(r"CRASH signal=(\d+) choices=([\d,]*)(?: scenario=(\S+))?", out + err)
        ck.hits.append(dict(what="h_c03 (%s) failed rc=%d: %s" % (cfg, rc, (err or out)[-800:]), key="crash:" + cfg,
                            replay=dict(harness="h_c03", config=cfg, choices=m.group(2).rstrip(",") if m else None,
                                        scenario=m.group(3) if m else None, yield_at=ya, args=mode_args)))
    return rows


def main(ck):
    ck.assumptions = [
        "FIBER backend (sequentially consistent, cooperative); ordering effects are C04's subject",
        "the Own.run correspondence covers pipelines of unique futures with value-returning steps; SharedFuture sources with plain and unwrapping continuations (throwing / skipped, other handles alive) and unique pipelines with an unwrapping step whose inner future is still pending and is fulfilled / failed / dropped by a third fiber (family unwrap/), and lazy Tasks (ready and Schedule heads, one step, every way to start or abandon the chain: family task/), and Connect(future, promise / shared promise) with a ready or pending source (family connect/) are explored with the oracle only; combinators and coroutine frames are covered by the layer (2)/(3) theorems and by the C09/C10/C13 checks' own oracles",
        "for a final DetachInline step the Detach core's own word is not named: its publication and self-release are synthesised in the replay (the oracle still checks its functor and the allocation balance)",
        "blocks released during an execution are filled with 0xDD and kept until its end; an instrumented functor or value used or destroyed inside a released block is reported as use after free; heap misuse that touches neither an instrumented object nor the allocation balance is not detected",
    ]
    ck.cov["trusted_base"] = [
        "Coq 8.16.1 kernel + vm_compute; Print Assumptions: closed under the global context",
        "checks/c03.py trace mapping, harness/h_c03.cpp instrumentation (instance registry, per-fiber allocation accounting)",
        "YACLIB_VERIF hooks, FIBER scheduler; AddressSanitizer/UBSan in the thorough tier",
    ]
    ck.prove("props/Properties_C03.v", ["model/OwnObs.vo"])
    rows = []
    # unique-future pipelines (s*/f*/...) are replayed through Own.run; the SharedFuture family (shared/...) is
    # oracle-only (plain and unwrapping continuations, throwing / skipped, while other handles stay alive)
    # "--yield-at after": the fiber switch is offered right after a wrapped operation instead of before it, so the plain
    # code that follows an operation (a release, a store into something just published) is a separate step
    after, both = ["--yield-at", "after"], ["--yield-at", "both"]
    if ck.tier == "quick":
        rows += explore(ck, "F", 1, ["--mode", "dfs", "--only", "/f"])
        rows += explore(ck, "F", 1, ["--mode", "dfs", "--only", "/f"] + after)
        rows += explore(ck, "F", 2, ["--mode", "random", "--max", "40", "--seed", str(ck.seed), "--only", "/f"] + both)
        rows += explore(ck, "F", 1, ["--mode", "dfs", "--pb", "2", "--only", "shared/"])
        rows += explore(ck, "F", 1, ["--mode", "dfs", "--pb", "2", "--only", "shared/"] + after)
        rows += explore(ck, "F", 1, ["--mode", "dfs", "--pb", "2", "--max", "4000", "--only", "unwrap/"])
        rows += explore(ck, "F", 1, ["--mode", "dfs", "--pb", "2", "--max", "4000", "--only", "unwrap/"] + after)
        rows += explore(ck, "F", 1, ["--mode", "dfs", "--only", "task/"])
        rows += explore(ck, "F", 1, ["--mode", "dfs", "--only", "connect/"])
        rows += explore(ck, "F", 1, ["--mode", "dfs", "--only", "connect/"] + after)
    else:
        rows += explore(ck, "F", 1, ["--mode", "dfs", "--only", "/f"])
        rows += explore(ck, "F", 1, ["--mode", "dfs", "--only", "/f"] + after)
        rows += explore(ck, "F", 2, ["--mode", "dfs", "--pb", "3", "--only", "/f"])
        rows += explore(ck, "F", 2, ["--mode", "dfs", "--pb", "3", "--only", "/f"] + after)
        rows += explore(ck, "F", 1, ["--mode", "dfs", "--only", "shared/"])
        rows += explore(ck, "F", 1, ["--mode", "dfs", "--only", "shared/"] + after)
        rows += explore(ck, "F", 1, ["--mode", "dfs", "--pb", "3", "--max", "200000", "--only", "unwrap/"])
        rows += explore(ck, "F", 1, ["--mode", "dfs", "--pb", "3", "--max", "200000", "--only", "unwrap/"] + after)
        rows += explore(ck, "F", 1, ["--mode", "dfs", "--only", "task/"])
        rows += explore(ck, "F", 1, ["--mode", "dfs", "--only", "connect/"])
        rows += explore(ck, "F", 1, ["--mode", "dfs", "--only", "connect/"] + after)
        rows += explore(ck, "FA", 1, ["--mode", "dfs", "--pb", "2"])
        rows += explore(ck, "FA", 1, ["--mode", "dfs", "--pb", "2"] + after)
        rows += explore(ck, "FA", 2, ["--mode", "random", "--max", "60", "--seed", str(ck.seed), "--only", "/f"] + both)
    heads = [r for r in rows if "mode" in r]
    traces = [r for r in rows if "trace" in r]
    ck.cov["evaluations"] = sum(h["executions"] for h in heads)
    ck.cov["scenarios"] = len(heads)
    ck.cov["exhaustive"] = False
    ck.cov["exhaustive_part"] = "all 144 one-step scenarios (4 sources x 4 endings x 9 step kinds) are explored exhaustively; two-step scenarios by seeded random walks (quick) / preemption-bounded DFS (thorough)"
    for t in traces:
        if t["fail"]:
            ck.hits.append(dict(what="%s: %s" % (t["scenario"], t["fail"]), key=t["fail"][:50],
                                replay=dict(harness="h_c03", scenario=t["scenario"], choices=t["choices"], trace=t["trace"],
                                            yield_at=t.get("yield_at"), args=t.get("_args"))))
    seen, terms, metas = set(), [], []
    seen_ev, dup_ev = set(), 0
    for t in traces:
        if t["fail"] or t["deadlock"] or t["scenario"].startswith(("shared/", "unwrap/", "task/", "connect/")):
            continue
        key = (t["scenario"], t["trace"])
        if key in seen:
            continue
        seen.add(key)
        evs, calls, fds, cores = to_events(t["trace"], t["scenario"])
        ekey = (t["scenario"].split("/", 2)[1], "; ".join(evs))   # traces that differ only in the waiter's mutex/condvar steps map to the same events
        if ekey in seen_ev:
            dup_ev += 1
            continue
        seen_ev.add(ekey)
        terms.append("obs_nat false [%s]" % "; ".join(evs))
        metas.append((t, calls, fds, cores))
    header = "From Coq Require Import List. Import ListNotations.\nFrom YV Require Import model.Own model.OwnObs.\n"
    res, logs = vlib.coq_eval_cases(header, terms, "c03") if terms else ([], [])
    validated, nontriv, bad = 0, set(), []
    for (t, calls, fds, cores), r in zip(metas, res):
        if r is None:
            bad.append((t, "model evaluation failed"))
        elif r[0] == 0:
            bad.append((t, "model rejects event #%d" % r[1]))
        else:
            term, errs, freed, fnd, built, nc = r[1:7]
            mcalls = r[7:7 + nc]
            if errs != 0:
                bad.append((t, "model counts %d liveness errors" % errs))
            elif term != 1 or freed != cores or built != cores:
                bad.append((t, "model not clean at the end of the implementation run (terminal=%d freed=%d built=%d, %d cores)" % (term, freed, built, cores)))
            elif fnd != fds or mcalls != calls:
                bad.append((t, "model predicts functor destructions %d calls %s, implementation showed %d %s" % (fnd, mcalls, fds, calls)))
            else:
                validated += 1
                # non-trivial: the producer's fulfilment lands inside the consumer's chain construction
                toks = [x for x in t["trace"].split(";") if x]
                try:
                    ps = next(i for i, x in enumerate(toks) if x.startswith("P:exchange"))
                    first_then = next(i for i, x in enumerate(toks) if "!then" in x)
                    fin_i = next(i for i, x in enumerate(toks) if x.endswith("!final"))
                    if first_then < ps < fin_i + 6:
                        nontriv.add(t["scenario"] + "|" + t["trace"])
                except StopIteration:
                    pass
    ck.cov["traces_validated_against_impl"] = validated
    ck.cov["distinct_traces"] = len(seen)
    ck.cov["distinct_event_sequences_replayed"] = len(metas)
    ck.cov["distinct_nontrivial"] = len(nontriv)
    ck.cov["rule"] = ("scenarios = source {value, error, exception, promise dropped} x ending {Get&&, drop future, DetachInline, Detach()} x per "
                      "step {ThenInline, Then(accepting executor), Then(rejecting executor)} x {functor takes Result, takes value, throws}; the "
                      "producer fiber races the consumer fiber that builds the chain; traces deduplicated by operations on the cores' callback "
                      "words + functor call/destructor markers; non-trivial = the producer's exchange on the source falls after the first step "
                      "was attached and before the chain was finished (so part of the chain fires on each thread)")
    ck.cov["samples"] = [dict(scenario=t["scenario"], trace=t["trace"], choices=t["choices"]) for t, _, _, _ in metas[:2]] + \
                        [dict(scenario=t["scenario"], trace=t["trace"], choices=t["choices"]) for t, _, _, _ in metas if t["scenario"].startswith("s3/f2")][:1]
    for t, why in bad[:8]:
        ck.broken.append(dict(name="correspondence Own.run vs implementation on %s" % t["scenario"],
                              detail="%s\ntrace: %s\nchoices: %s\nevents: %s" % (why, t["trace"], t["choices"], to_events(t["trace"], t["scenario"])[0])))
    if not traces:
        ck.broken.append(dict(name="correspondence Own.run vs implementation", detail="harness produced no traces"))


def replay(ck, path):
    d = json.load(open(path))
    rp = d.get("replay") or {}
    if not rp.get("scenario"):
        print(json.dumps(d, indent=1)[:3000])
        return 0
    exe, b = vlib.compile_harness(rp.get("config", "F"), [os.path.join(vlib.VERIF, "harness", "h_c03.cpp")], "c03")
    n = max(1, len(re.findall(r"m\dk\d", rp["scenario"])))
    a = rp.get("args") or []
    pb = ["--pb", a[a.index("--pb") + 1]] if "--pb" in a else []    # the bound changes how decisions are numbered
    rows, out, err, rc = runner.run_harness(exe, ["--param", "maxlen=%d" % n, "--mode", "replay", "--exact", rp["scenario"], "--choices", rp["choices"],
                                                  "--yield-at", rp.get("yield_at") or "before"] + pb)
    print(out)
    return 1 if rc != 0 or any(r.get("fail") for r in rows if "trace" in r) else 0
