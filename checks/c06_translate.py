"""C06 translator: reads the facts the Shared model depends on out of the tree under check and writes
coq/gen/Gen_ready.v and coq/gen/Gen_shared_consts.v.  Lexical (regular expressions on comment-stripped source); when a
pattern is not recognised the generated definition makes the proof obligation `c06_source_facts` fail.

  Gen_ready.v          ready_is_result : bool   from BaseCore::Empty (base_core.hpp), SharedFutureBase::Ready
                                                (shared_future.hpp) and AwaitSingleAwaiter<true>::await_ready
  Gen_shared_consts.v  kSharedRefWithFuture / kSharedRefNoFuture                    (shared_core.hpp)
                       thresholds of ResultCore::Impl (`ref >= 3`, `ref == 1`)      (result_core.hpp)
                       `GetRef() == 1` of Get()&& and Touch()&&                     (shared_future.hpp)
                       number of DecRef() in SetResultImpl's Shared branch: before the last callback / after it /
                       on the empty-list path                                       (src/algo/base_core.cpp)"""
import os, re


def strip_comments(src):
    src = re.sub(r"/\*.*?\*/", lambda m: " " * len(m.group(0)), src, flags=re.S)
    return re.sub(r"//[^\n]*", "", src)


def read(repo, rel):
    with open(os.path.join(repo, rel)) as f:
        return strip_comments(f.read())


def block_after(src, start):
    """text of the brace block that opens at or after index start (without the outer braces), and its end index"""
    i = src.index("{", start)
    depth, j = 0, i
    while True:
        c = src[j]
        if c == "{":
            depth += 1
        elif c == "}":
            depth -= 1
            if depth == 0:
                return src[i + 1:j], j + 1
        j += 1


def ready_rule(repo):
    notes = []
    ok = True
    base = read(repo, "include/yaclib/algo/detail/base_core.hpp")
    m = re.search(r"bool\s+Empty\s*\(\s*\)\s*const\s+noexcept", base)
    rule = None
    if m:
        body, _ = block_after(base, m.end())
        r = re.search(r"return\s+callback\s*(==|!=)\s*(kEmpty|kResult)\s*;", body)
        ld = re.search(r"auto\s+callback\s*=\s*_callback\.load\(", body)
        notes.append("BaseCore::Empty: " + " ".join(body.split()))
        if r and ld:
            if (r.group(1), r.group(2)) == ("!=", "kResult"):
                rule = True            # Empty = (word != Result)  =>  Ready = (word == Result)
            elif (r.group(1), r.group(2)) == ("==", "kEmpty"):
                rule = False           # Empty = (word == Empty)   =>  Ready = (word != Empty)
    if rule is None:
        ok = False
        rule = False
    sf = read(repo, "include/yaclib/async/shared_future.hpp")
    m = re.search(r"bool\s+Ready\s*\(\s*\)\s*const\s+noexcept", sf)
    if m:
        body, _ = block_after(sf, m.end())
        notes.append("SharedFutureBase::Ready: " + " ".join(body.split()))
        if not re.search(r"return\s+!\s*_core->Empty\(\)\s*;", body):
            ok = False
    else:
        ok = False
    aw = read(repo, "include/yaclib/coro/detail/await_awaiter.hpp")
    m = re.search(r"class\s+\[\[nodiscard\]\]\s+AwaitSingleAwaiter<true,\s*V,\s*E>", aw)
    if m:
        body, _ = block_after(aw, m.end())
        r = re.search(r"bool\s+await_ready\s*\(\s*\)\s*const\s+noexcept\s*\{([^}]*)\}", body)
        notes.append("AwaitSingleAwaiter<true>::await_ready: " + (" ".join(r.group(1).split()) if r else "?"))
        if not (r and re.search(r"return\s+!\s*_result->Empty\(\)\s*;", r.group(1))):
            ok = False
    else:
        ok = False
    return ok, rule, notes


def consts(repo):
    out = {}
    sc = read(repo, "include/yaclib/algo/detail/shared_core.hpp")
    for name in ("kSharedRefWithFuture", "kSharedRefNoFuture"):
        m = re.search(name + r"\s*=\s*(\d+)\s*;", sc)
        out[name] = int(m.group(1)) if m else 0
    rc = read(repo, "include/yaclib/algo/detail/result_core.hpp")
    m = re.search(r"auto\s+Impl\s*\(\s*InlineCore&\s*caller\s*\)\s*noexcept", rc)
    out["impl_copy_when_ref_ge"] = 0
    out["impl_decref_when_ref_eq"] = 0
    if m:
        body, _ = block_after(rc, m.end())
        g = re.search(r"const\s+auto\s+ref\s*=\s*caller\.GetRef\(\)\s*;.*?if\s*\(\s*ref\s*>=\s*(\d+)\s*\)", body, re.S)
        if g:
            # the copy branch stores a const reference, the other one moves
            blk, end = block_after(body, g.end())
            rest = body[end:]
            if "std::move" not in blk and re.search(r"Store\(\s*std::move\(", rest):
                out["impl_copy_when_ref_ge"] = int(g.group(1))
            d = re.search(r"if\s*\(\s*ref\s*==\s*(\d+)\s*\)\s*\{\s*caller\.DecRef\(\)\s*;\s*\}", rest)
            if d:
                out["impl_decref_when_ref_eq"] = int(d.group(1))
    sf = read(repo, "include/yaclib/async/shared_future.hpp")
    for key, pat in (("get_move_when_ref_eq", r"Result<V,\s*E>\s+Get\s*\(\s*\)\s*&&\s*noexcept"),
                     ("touch_move_when_ref_eq", r"Result<V,\s*E>\s+Touch\s*\(\s*\)\s*&&\s*noexcept")):
        out[key] = 0
        m = re.search(pat, sf)
        if m:
            body, _ = block_after(sf, m.end())
            g = re.search(r"if\s*\(\s*_core->GetRef\(\)\s*==\s*(\d+)\s*\)\s*\{\s*return\s+std::move\(_core->Get\(\)\)\s*;\s*\}"
                          r"\s*else\s*\{\s*return\s+_core->Get\(\)\s*;\s*\}", body)
            if g:
                out[key] = int(g.group(1))
    bc = read(repo, "src/algo/base_core.cpp")
    out["set_result_decrefs_before_last"] = 99
    out["set_result_decrefs_after_last"] = 99
    out["set_result_decrefs_empty_list"] = 99
    m = re.search(r"BaseCore::SetResultImpl\s*\(\s*\)\s*noexcept", bc)
    if m:
        body, _ = block_after(bc, m.end())
        sh = re.search(r"if\s+constexpr\s*\(\s*Shared\s*\)", body)
        xc = re.search(r"_callback\.exchange\(\s*kResult", body)
        if sh and xc and xc.start() < sh.start():
            shared, _ = block_after(body, sh.end())
            ih = re.search(r"if\s*\(\s*head\s*\)", shared)
            if ih:
                ifb, e1 = block_after(shared, ih.end())
                el = re.match(r"\s*else", shared[e1:])
                if el:
                    elb, e2 = block_after(shared, e1 + el.end())
                    tail = shared[e2:]
                    # inside the non-empty branch: the while loop fires every callback but the last, then DecRef, then
                    # the last Loop(this, head)
                    w = re.search(r"while\s*\(\s*auto\*\s*next\s*=\s*head->next\s*\)", ifb)
                    if w:
                        _, wend = block_after(ifb, w.end())
                        after = ifb[wend:]
                        lp = after.rfind("Loop(this, head)")
                        if lp >= 0:
                            out["set_result_decrefs_before_last"] = len(re.findall(r"\bDecRef\(\)\s*;", after[:lp])) + \
                                99 * len(re.findall(r"\bDecRef\(\)\s*;", ifb[:wend]))
                            after_last = len(re.findall(r"\bDecRef\(\)\s*;", after[lp:])) + \
                                len(re.findall(r"\bDecRef\(\)\s*;", tail))
                            out["set_result_decrefs_after_last"] = after_last
                            out["set_result_decrefs_empty_list"] = len(re.findall(r"\bDecRef\(\)\s*;", elb)) + \
                                len(re.findall(r"\bDecRef\(\)\s*;", tail))
    return out


def write_if_changed(path, text):
    old = open(path).read() if os.path.exists(path) else None
    if old != text:
        os.makedirs(os.path.dirname(path), exist_ok=True)
        with open(path + ".tmp%d" % os.getpid(), "w") as f:
            f.write(text)
        os.replace(path + ".tmp%d" % os.getpid(), path)
        return True
    return False


def generate(repo, coq_dir):
    ok, rule, notes = ready_rule(repo)
    t1 = ["(* GENERATED by checks/c06_translate.py from include/yaclib/algo/detail/base_core.hpp (BaseCore::Empty),",
          "   include/yaclib/async/shared_future.hpp (SharedFutureBase::Ready) and include/yaclib/coro/detail/await_awaiter.hpp.",
          "   Do not edit. *)"]
    for n in notes:
        t1.append("(* %s *)" % n.replace("(*", "( *").replace("*)", "* )"))
    t1.append("Definition ready_rule_recognised : bool := %s." % ("true" if ok else "false"))
    t1.append("Definition ready_is_result : bool := %s." % ("true" if rule else "false"))
    c = consts(repo)
    t2 = ["(* GENERATED by checks/c06_translate.py from include/yaclib/algo/detail/shared_core.hpp, result_core.hpp,",
          "   src/algo/base_core.cpp and include/yaclib/async/shared_future.hpp.  Do not edit. *)"]
    for k in ("kSharedRefWithFuture", "kSharedRefNoFuture", "impl_copy_when_ref_ge", "impl_decref_when_ref_eq",
              "get_move_when_ref_eq", "touch_move_when_ref_eq", "set_result_decrefs_before_last",
              "set_result_decrefs_after_last", "set_result_decrefs_empty_list"):
        t2.append("Definition %s : nat := %d." % (k, c[k]))
    ch1 = write_if_changed(os.path.join(coq_dir, "gen", "Gen_ready.v"), "\n".join(t1) + "\n")
    ch2 = write_if_changed(os.path.join(coq_dir, "gen", "Gen_shared_consts.v"), "\n".join(t2) + "\n")
    return dict(recognised=ok, ready_is_result=rule, consts=c, changed=ch1 or ch2, notes=notes)


if __name__ == "__main__":
    import sys, json
    repo = sys.argv[1] if len(sys.argv) > 1 else "/repo"
    ok, rule, notes = ready_rule(repo)
    print(json.dumps(dict(recognised=ok, ready_is_result=rule, notes=notes, consts=consts(repo)), indent=1))
