"""C20 — allocations: one per pipeline step, constant per combinator, none to wait.

Proof: coq/props/Properties_C20.v about coq/model/Alloc.v (programs of any length and nesting; every n).
Tie:   PROGRAM correspondence.  The real library (configurations B: C++17 and BC: C++20 + coroutines, no fault layer)
       runs each program with every global operator new replaced by a counting one (harness/h_c20.cpp); the count
       observed for the program must be EXACTLY the number Alloc.v computes for it inside Coq (together with the number
       of executed steps, invoked callbacks, final state and the multiset of (API call, blocks requested there)).
Oracle (property text only, independent of the model): blocks <= executed pipeline steps; a combinator needs no more
       blocks for n in 17..64 than the largest count seen for n <= 16; Wait/WaitFor/WaitUntil on futures, Get,
       Strand::Submit(job) and co_await of futures: 0 blocks; on pipelines over payloads that own heap memory
       (Future/FutureOn/Task<HeavyV | void, HeavyE>: constructing one is the user's and uses malloc, moving is free,
       COPYING is counted and requests a block) the library makes ZERO payload copies — a copied error or value is one
       more block for the step that copies it (hit key copy:payload-copied).  (The by-value recovery copy this oracle found
       in 2666d07 was fixed in /repo by d85ca6f.)"""
import collections, concurrent.futures, hashlib, json, os, random, re, shutil, subprocess, sys, time
import vlib, runner

NSHARDS = 16
SRC = os.path.join(vlib.VERIF, "harness", "h_c20.cpp")
W = ["F", "O", "T", "S", "SO", "HF", "HO", "HT"]   # H*: the heavy family Future/FutureOn/Task<HeavyV | void, HeavyE>


def basek(w):
    return w[1:] if w.startswith("H") else w


def fam(w):
    return "H" if w.startswith("H") else ""
PAR = ["R", "V", "E", "X", "N", "U"]
RET = ["I", "V", "RI", "RV", "FI", "FV", "OI", "OV", "TI", "TV", "SI", "SV"]
EXECS = ["i", "m", "st", "s"]


# ------------------------------------------------------------------------------------------------ building the harness

OWN_CACHE = os.environ.get("VERIF_C20_CACHE", "/var/tmp/yaclib-verif-c20-cache")


def build_harness(cfg):
    """h_c20.cpp compiled as 1 main + NSHARDS cell TUs in parallel (flags of the configuration, minus -g).  The binary
    (statically linked with libyaclib.a) is cached by (tree hash, configuration, harness hash) in a directory of its own:
    the shared build cache is pruned by other checks' scratch trees."""
    flags0 = [f for f in vlib.CONFIGS[cfg]["cxx"] if f != "-g"]
    th = vlib.tree_hash()
    key = hashlib.sha1(open(SRC, "rb").read() + (" ".join(flags0) + " %d" % NSHARDS).encode()).hexdigest()[:12]
    d = os.path.join(OWN_CACHE, "%s_%s_%s" % (th, cfg, key))
    exe = os.path.join(d, "h_c20")
    if os.path.exists(exe):
        os.utime(d, None)
        return exe, dict(hash=th)
    os.makedirs(d, exist_ok=True)
    # private copy of the headers and the library: the shared cache entry can be pruned while the shards compile
    inc, binc, lib = os.path.join(d, "include"), os.path.join(d, "binclude"), os.path.join(d, "libyaclib.a")
    b = None
    for attempt in range(4):
        b = vlib.build(cfg)
        try:
            for x in (inc, binc):
                subprocess.run(["rm", "-rf", x])
            shutil.copytree(os.path.join(b["src"], "include"), inc)
            shutil.copytree(os.path.join(b["build"], "include"), binc)
            shutil.copy2(b["lib"], lib)
            break
        except (OSError, shutil.Error):
            if attempt == 3:
                raise vlib.BuildError("the build of %s disappeared from the shared cache while it was being copied" % cfg)
    flags = flags0 + ["-I" + inc, "-I" + binc]
    # keep the cache small
    try:
        ents = sorted((os.path.join(OWN_CACHE, e) for e in os.listdir(OWN_CACHE)), key=os.path.getmtime, reverse=True)
        for e in ents[8:]:
            if e != d:
                subprocess.run(["rm", "-rf", e])
    except OSError:
        pass

    def one(k):
        o = os.path.join(d, "s%d.%d.o" % (k, os.getpid()))
        r = vlib.sh(["g++"] + flags + ["-DC20_NSHARDS=%d" % NSHARDS, "-DC20_SHARD=%d" % k, "-c", SRC, "-o", o])
        return k, r.returncode, r.stdout, o

    objs = []
    with concurrent.futures.ThreadPoolExecutor(max_workers=min(vlib.NPROC, NSHARDS + 1)) as ex:
        for k, rc, out, o in ex.map(one, [-1] + list(range(NSHARDS))):
            if rc != 0:
                raise vlib.BuildError("harness h_c20 (shard %d) failed to compile in %s:\n%s" % (k, cfg, out[-8000:]))
            objs.append(o)
    tmp = exe + ".tmp%d" % os.getpid()
    r = vlib.sh(["g++"] + objs + [lib, "-lpthread", "-o", tmp])
    if r.returncode != 0:
        raise vlib.BuildError("harness h_c20 failed to link in %s:\n%s" % (cfg, r.stdout[-8000:]))
    os.rename(tmp, exe)
    for o in objs:
        try:
            os.remove(o)
        except OSError:
            pass
    return exe, b


def read_cells(exe):
    out = subprocess.run([exe, "--cells"], stdout=subprocess.PIPE, text=True, timeout=60).stdout
    t = dict(then={}, detach={}, run={}, whenvar=set(), waitvar=set(), awaitvar=set(), config={})
    for line in out.split("\n"):
        f = line.split()
        if not f:
            continue
        if f[0] in ("then", "detach"):
            t[f[0]][(int(f[1]), f[2], f[3], f[4])] = int(f[5])
        elif f[0] == "run":
            t["run"][(int(f[1]), f[2], f[3])] = int(f[4])
        elif f[0] == "whenvar":
            t["whenvar"].add(tuple(int(x) for x in f[1:]))
        elif f[0] == "waitvar":
            t["waitvar"].add(tuple(int(x) for x in f[1:]))
        elif f[0] == "awaitvar":
            t["awaitvar"].add(tuple(int(x) for x in f[1:]))
        elif f[0] == "config":
            for kv in f[1:]:
                if "=" in kv:
                    k, v = kv.split("=")
                    t["config"][k] = int(v)
    return t


# ------------------------------------------------------------------------------------------------ pipeline programs

def wi_of(w, v):
    return 2 * W.index(w) + (1 if v == "v" else 0) + 1


def w_of(wi):
    return W[(wi - 1) // 2], ("v" if wi % 2 == 0 else "i")


def ret_void(r):
    return RET.index(r) & 1


def ret_world(r, family=""):
    """handle type an async return class needs from the inner pipeline (None for plain / Result)"""
    if r[0] in "FOTS" and len(r) == 2:
        return wi_of(family + r[0], "v" if r[1] == "V" else "i")
    return None


def modes_of(r):
    if r in ("I", "V"):
        return ["ret", "throw"]
    if r in ("RI", "RV"):
        return ["resval", "reserr", "resexc", "throw"]
    return ["async", "throw"]


def att_kind(a):
    return a[0] if isinstance(a, tuple) else a


def wire_fn(f):
    return "(fn %s %s %s%s)" % (f["par"], f["ret"], f["mode"], " " + wire(f["inner"]) if f["mode"] == "async" else "")


def wire_att(a):
    return "on:" + a[1] if isinstance(a, tuple) else a


def wire_src(s):
    k = s[0]
    if k == "ready":
        return "(ready %s %s %s)" % s[1:]
    if k == "contract":
        return "(contract %s %s %s %d %s)" % (s[1], s[2], s[3], int(s[4]), s[5])
    if k == "run":
        return "(run %s %s %s)" % (s[1], s[2], wire_fn(s[3]))
    if k == "prom":
        return "(prom %s %s %s %d %s %d)" % (s[1], s[2], s[3], int(s[4]), s[5], int(s[6]))
    return "(coro %s %s %s %s%s)" % (s[1], s[2], s[3], s[4], "".join(" " + wire(p) for p in s[5]))


def wire_op(o):
    if o[0] in ("then", "detach"):
        return "(%s %s %s)" % (o[0], wire_att(o[1]), wire_fn(o[2]))
    if o[0] in ("starton", "shareon"):
        return "(%s %s)" % (o[0], o[1])
    return "(%s)" % o[0]


def wire(p):
    return "(P " + " ".join([wire_src(p["src"])] + [wire_op(o) for o in p["ops"]]) + ")"


G_W = {"F": "WF", "O": "WO", "T": "WT", "S": "WS", "SO": "WSO", "HF": "WF", "HO": "WO", "HT": "WT"}
G_V = {"i": "VInt", "v": "VVoid"}
G_E = {"i": "XInline", "m": "XManual", "st": "XStrand", "s": "XStopped"}
G_R = {"val": "RVal", "err": "RErr", "exc": "RExc"}
G_P = {"R": "PResult", "V": "PValue", "E": "PError", "X": "PExc", "N": "PNone", "U": "PUnit"}
G_M = {"ret": "BRet", "throw": "BThrow", "resval": "BResVal", "reserr": "BResErr", "resexc": "BResExc"}


def g_v(s):
    return "VHeavy" if s[1].startswith("H") and s[2] == "i" else G_V[s[2]]


def g_bool(b):
    return "true" if b else "false"


def g_fn(f):
    r = f["ret"]
    sh = "ShPlain" if r in ("I", "V") else "ShResult" if r in ("RI", "RV") else "(ShAsync %s)" % G_W[r[0]]
    b = "(BAsync %s)" % gallina(f["inner"]) if f["mode"] == "async" else G_M[f["mode"]]
    return "(Fn %s %s %s %s)" % (G_P[f["par"]], "VVoid" if ret_void(r) else "VInt", sh, b)


def g_att(a):
    if isinstance(a, tuple):
        return "(AOn %s)" % G_E[a[1]]
    return {"inline": "AInline", "inherit": "AInherit"}[a]


def g_src(s):
    k = s[0]
    if k == "ready":
        return "(PReady %s %s %s)" % (G_W[s[1]], g_v(s), G_R[s[3]])
    if k == "contract":
        return "(PContract %s %s %s %s %s)" % (G_W[s[1]], g_v(s), G_E[s[3]], g_bool(s[4]), G_R[s[5]])
    if k == "run":
        return "(PRun %s %s %s)" % (G_W[s[1]], G_E[s[2]], g_fn(s[3]))
    if k == "prom":
        return "(PProm %s %s %s %s %s %s)" % (G_W[s[1]], g_v(s), G_E[s[3]], g_bool(s[4]), G_R[s[5]], g_bool(s[6]))
    inner = "PNil"
    for p in reversed(s[5]):
        inner = "(PCons %s %s)" % (gallina(p), inner)
    return "(PCoro %s %s %s %s %s)" % (G_W[s[1]], g_v(s), {"await": "MAwait", "coawait": "MCoAwait"}[s[3]], inner, G_R[s[4]])


def gallina(p):
    t = g_src(p["src"])
    for o in p["ops"]:
        k = o[0]
        if k == "then":
            t = "(PThen %s %s %s)" % (t, g_att(o[1]), g_fn(o[2]))
        elif k == "detach":
            t = "(PDetach %s %s %s)" % (t, g_att(o[1]), g_fn(o[2]))
        elif k == "detach0":
            t = "(PDetach0 %s)" % t
        elif k == "starton":
            t = "(PStartOn %s %s)" % (t, G_E[o[1]])
        elif k == "tofuture":
            t = "(PToFuture %s)" % t
        elif k == "onnull":
            t = "(POnNull %s)" % t
        elif k == "split":
            t = "(PSplit %s)" % t
        elif k == "share":
            t = "(PShare %s None)" % t
        elif k == "shareon":
            t = "(PShare %s (Some %s))" % (t, G_E[o[1]])
    return t


def count_steps(p):
    """(syntactic steps, nesting depth, number of callbacks written) of a program — evidence only"""
    n, depth, kinds = 1, 0, 0
    fns = []
    if p["src"][0] == "run":
        fns.append(p["src"][3])
    if p["src"][0] == "coro":
        for q in p["src"][5]:
            a, d, k = count_steps(q)
            n += a
            depth = max(depth, d + 1)
            kinds += k
    for o in p["ops"]:
        if o[0] in ("then", "detach", "detach0", "split", "share", "shareon"):
            n += 1
        if o[0] in ("then", "detach"):
            fns.append(o[2])
    kinds += len(fns)
    for f in fns:
        if f["mode"] == "async":
            a, d, k = count_steps(f["inner"])
            n += a
            depth = max(depth, d + 1)
            kinds += k
    return n, depth, kinds


class Gen:
    """Typed pipeline programs over the cell table of one harness binary."""

    def __init__(self, cells, coro, rng, heavy=False):
        self.c = cells
        self.coro = coro
        self.rng = rng
        self.heavy = heavy
        self.family = "H" if heavy else ""
        self.worlds = list(range(11, 17)) if heavy else list(range(1, 11))
        # steps available in each world: (op builder, resulting world)
        self.then_by_world = collections.defaultdict(list)
        for (wi, a, p, r), out in cells["then"].items():
            self.then_by_world[wi].append((a, p, r, out))
        self.detach_by_world = collections.defaultdict(list)
        for (wi, a, p, r), out in cells["detach"].items():
            self.detach_by_world[wi].append((a, p, r))
        for d in (self.then_by_world, self.detach_by_world):
            for k in d:
                d[k].sort()
        # bridges: shortest op sequences between handle types (conversions and plain Result-taking steps)
        self.bridge = {}
        for a in self.worlds:
            self.bridge[a] = self._bfs(a)

    # -- sources
    def sources_of(self, wi, small=False):
        """every source form that produces handle type wi (small: one canonical form per kind)"""
        w, v = w_of(wi)
        bk = basek(w)
        out = []
        ress = ["val", "err", "exc"]
        if bk in ("F", "T"):
            out += [("ready", w, v, r) for r in ress]
        if bk in ("F", "O", "S", "SO"):
            exs = ["i"] if bk in ("F", "S") else EXECS
            for e in exs:
                for late in (False, True):
                    for r in ress:
                        out.append(("contract", w, v, e, late, r))
        if bk in ("F", "O", "SO", "T"):
            exs = ["i"] if bk == "F" else EXECS
            for e in exs:
                for late in (False, True):
                    for r in ress:
                        out.append(("prom", w, v, e, late, r, False))
                out.append(("prom", w, v, e, False, "val", True))
        if self.coro and bk in ("F", "T", "S"):
            for r in ress:
                out.append(("coro", w, v, "await", r, []))
        if small:
            seen, res = set(), []
            for s in out:
                if s[0] not in seen:
                    seen.add(s[0])
                    res.append(s)
            out = res
        return out

    def run_sources_of(self, wi):
        """(exec list, par, ret) of the Run/Schedule cells whose function's own return makes handle type wi"""
        w, v = w_of(wi)
        bk = basek(w)
        res = []
        for (wk, p, r), out in sorted(self.c["run"].items()):
            if out == wi:
                exs = ["i"] if basek(W[wk]) in ("F", "S") else EXECS
                res.append((W[wk], exs, p, r))
        return res

    def _bfs(self, start):
        dist = {start: []}
        q = collections.deque([start])
        while q:
            a = q.popleft()
            for op, b in self._edges(a):
                if b not in dist:
                    dist[b] = dist[a] + [op]
                    q.append(b)
        return dist

    def _edges(self, wi):
        w, v = w_of(wi)
        bk = basek(w)
        e = []
        if bk == "O":
            e.append((("onnull",), wi_of(fam(w) + "F", v)))
        if bk == "SO":
            e.append((("onnull",), wi_of(fam(w) + "S", v)))
        if bk == "T":
            e.append((("tofuture",), wi_of(fam(w) + "F", v)))
            e.append((("starton", "m"), wi_of(fam(w) + "O", v)))
        if bk in ("F", "O") and not fam(w):
            e.append((("split",), wi_of("S", v)))
        if bk in ("S", "SO"):
            e.append((("share",), wi_of(fam(w) + "F", v)))
            e.append((("shareon", "m"), wi_of(fam(w) + "O", v)))
        for (a, p, r, out) in self.then_by_world.get(wi, []):
            if p == "R" and r in ("I", "V") and a != "inherit":
                att = ("on", "m") if a == "on" else a
                e.append((("then", att, dict(par="R", ret=r, mode="ret", inner=None)), out))
        return e

    # -- random programs
    def fn(self, par, ret, depth, budget):
        rng = self.rng
        mode = rng.choice(modes_of(ret))
        inner = None
        if mode == "async" and (depth <= 0 or budget[0] <= 0):
            inner = self.canonical_inner(ret_world(ret, self.family), rng.randint(0, 3))
        elif mode == "async":
            inner = self.pipe(ret_world(ret, self.family), depth - 1, budget, max_steps=rng.choice([0, 0, 1, 1, 2, 3]))
        return dict(par=par, ret=ret, mode=mode, inner=inner)

    def attach(self, a):
        if a == "on":
            return ("on", self.rng.choice(EXECS))
        return a

    def source(self, wi, depth, budget):
        rng = self.rng
        runs = self.run_sources_of(wi)
        plain = self.sources_of(wi)
        budget[0] -= 1
        if runs and (not plain or rng.random() < 0.4):
            w, exs, p, r = rng.choice(runs)
            return ("run", w, rng.choice(exs), self.fn(p, r, depth, budget))
        s = rng.choice(plain)
        if s[0] == "coro" and depth > 0 and budget[0] > 0:
            k = rng.choice([0, 1, 1, 2, 3])
            inners = [self.pipe(rng.choice(self.worlds), depth - 1, budget, max_steps=rng.choice([0, 1, 2])) for _ in range(k)]
            s = ("coro", s[1], s[2], rng.choice(["await", "coawait"]), s[4], inners)
        return s

    def pipe(self, target, depth, budget, max_steps):
        """a pipeline whose final handle type is `target` (None: anything, finished so that a Task is started)"""
        rng = self.rng
        ok = lambda wi: target is None or target in self.bridge[wi]
        cur = rng.choice([wi for wi in self.worlds if ok(wi)])
        src = self.source(cur, depth, budget)
        ops = []
        for _ in range(max_steps):
            if budget[0] <= 0:
                break
            r = rng.random()
            if r < 0.8:
                cand = [c for c in self.then_by_world[cur] if ok(c[3])]
                if not cand:
                    continue
                a, p, rr, out = rng.choice(cand)
                budget[0] -= 1
                ops.append(("then", self.attach(a), self.fn(p, rr, depth, budget)))
                cur = out
            else:
                conv = [(op, b) for op, b in self._edges(cur) if op[0] != "then" and ok(b)]
                if conv:
                    op, b = rng.choice(conv)
                    if op[0] in ("starton", "shareon"):
                        op = (op[0], rng.choice(["i", "m", "st"] if op[0] == "starton" else EXECS))
                    ops.append(op)
                    cur = b
        if target is None:
            bk = basek(w_of(cur)[0])
            r = rng.random()
            if bk == "T":
                ops.append(rng.choice([("tofuture",), ("starton", rng.choice(["i", "m", "st"])), ("detach0",)]))
            elif r < 0.25 and self.detach_by_world.get(cur):
                a, p, rr = rng.choice(self.detach_by_world[cur])
                ops.append(("detach", self.attach(a), self.fn(p, rr, depth, budget)))
            elif r < 0.32:
                ops.append(("detach0",))
        else:
            path = self.bridge[cur].get(target)
            if path is None:
                raise RuntimeError("no bridge from %d to %d" % (cur, target))
            ops += path
        return dict(src=src, ops=ops)

    # -- systematic programs
    def canonical_inner(self, wi, variant):
        """small inner pipelines producing handle type wi"""
        w, v = w_of(wi)
        bk = basek(w)
        late = variant % 2 == 1
        if bk == "T":
            if variant < 2:
                return dict(src=("ready", w, v, "val"), ops=[])
            return dict(src=("prom", w, v, "m", late, "val", False),
                        ops=[("then", "inherit", dict(par="R", ret="V" if v == "v" else "I", mode="ret", inner=None))])
        if bk == "F":
            base = dict(src=("contract", w, v, "i", late, "val" if variant < 2 else "err"), ops=[])
        elif bk == "O":
            base = dict(src=("contract", w, v, "m", late, "val" if variant < 2 else "exc"), ops=[])
        elif bk == "S":
            base = dict(src=("contract", w, v, "i", late, "val" if variant < 2 else "err"), ops=[])
        else:
            base = dict(src=("contract", w, v, "m", late, "val"), ops=[])
        if variant >= 2 and bk in ("F", "O"):
            base["ops"].append(("then", "inline", dict(par="R", ret="V" if v == "v" else "I", mode="ret", inner=None)))
        return base

    def fns_for(self, par, ret, variants=(0, 1, 2, 3)):
        out = []
        for m in modes_of(ret):
            if m == "async":
                for k in variants:
                    out.append(dict(par=par, ret=ret, mode=m, inner=self.canonical_inner(ret_world(ret, self.family), k)))
            else:
                out.append(dict(par=par, ret=ret, mode=m, inner=None))
        return out

    def finish(self, ops, cur):
        if cur and basek(w_of(cur)[0]) == "T":
            return ops + [("tofuture",)]
        return ops

    def systematic(self, level):
        """level 0: every source alone; every cell once per behaviour behind canonical sources in each input state.
        level >= 1: plus every pipeline of source + up to 3 steps over a reduced step alphabet."""
        progs = []
        # every source form alone
        for wi in self.worlds:
            for s in self.sources_of(wi):
                progs.append(dict(src=s, ops=self.finish([], wi)))
            for (w, exs, p, r) in self.run_sources_of(wi):
                for e in exs:
                    for f in self.fns_for(p, r):
                        progs.append(dict(src=("run", w, e, f), ops=self.finish([], wi)))
        # every then / detach cell x behaviour x input state x executor
        for wi in self.worlds:
            w, v = w_of(wi)
            bk = basek(w)
            srcs = []
            for r in ("val", "err", "exc"):
                if bk in ("F", "T"):
                    srcs.append(("ready", w, v, r))
                else:
                    srcs.append(("contract", w, v, "m", False, r))
            srcs.append(("contract", w, v, "m" if bk in ("O", "SO") else "i", True, "val") if bk != "T" else ("prom", w, v, "m", True, "val", False))
            for (a, p, r, out) in self.then_by_world[wi]:
                for f in self.fns_for(p, r, variants=(0, 1, 3)):
                    for si, s in enumerate(srcs):
                        atts = [("on", e) for e in (EXECS if si == 0 else ["m"])] if a == "on" else [a]
                        for att in atts:
                            progs.append(dict(src=s, ops=self.finish([("then", att, f)], out)))
            for (a, p, r) in self.detach_by_world[wi]:
                for f in self.fns_for(p, r):
                    for si, s in enumerate(srcs):
                        atts = [("on", e) for e in (EXECS if si == 0 else ["m"])] if a == "on" else [a]
                        for att in atts:
                            progs.append(dict(src=s, ops=[("detach", att, f)]))
            # conversions and callback-less steps
            for s in srcs[:1] + srcs[3:]:
                for op, b in self._edges(wi):
                    if op[0] != "then":
                        progs.append(dict(src=s, ops=self.finish([op], b)))
                progs.append(dict(src=s, ops=[("detach0",)]))
        if level >= 1:
            progs += self.exhaustive_small(3 if level == 1 else 4)
        return progs

    def exhaustive_small(self, max_steps):
        """all pipelines source + <= max_steps steps over a reduced alphabet: per world, the then-steps
        {inline, on manual} x {R/ret, value-class/ret, R/async(F or T)} and the conversions"""
        progs = []
        alpha = {}
        for wi in self.worlds:
            w, v = w_of(wi)
            bk = basek(w)
            steps = []
            for (a, p, r, out) in self.then_by_world[wi]:
                if a == "inherit":
                    continue
                att = ("on", "m") if a == "on" else a
                plain = "V" if v == "v" else "I"
                flip = "I" if v == "v" else "V"
                vp = "N" if v == "v" else "V"
                if (p, r) in (("R", plain), (vp, flip)):
                    steps.append((("then", att, dict(par=p, ret=r, mode="ret", inner=None)), out))
                if a == "inline" and p == "R" and r == ("TV" if v == "v" else "FI"):
                    steps.append((("then", att, dict(par=p, ret=r, mode="async", inner=self.canonical_inner(ret_world(r, self.family), 1))), out))
            for op, b in self._edges(wi):
                if op[0] != "then":
                    steps.append((op, b))
            alpha[wi] = steps
        starts = []
        for wi in self.worlds:
            w, v = w_of(wi)
            bk = basek(w)
            if bk in ("F", "T"):
                starts.append((("ready", w, v, "val"), wi))
            else:
                starts.append((("contract", w, v, "m", True, "val"), wi))

        def rec(src, ops, cur, left):
            progs.append(dict(src=src, ops=self.finish(list(ops), cur)))
            if left == 0:
                return
            for op, b in alpha[cur]:
                rec(src, ops + [op], b, left - 1)

        for s, wi in starts:
            rec(s, [], wi, max_steps)
        return progs


# ------------------------------------------------------------------------------------------------ fixed-shape programs

KINDS = ["CAll", "CAny", "CJoin"]
POLS = ["FNone", "FFirst", "FLast"]
FORMS = ["FIter", "FVariadic"]
IKS = ["IUnique", "IShared", "IMixedUS"]
VSS = ["VsInt", "VsVoid", "VsMixed"]
OCS = ["OAllOk", "OFirstFails", "OLastFails"]
TIMS = ["TEarly", "TLate"]
WFUN = ["WWait", "WWaitFor", "WWaitUntil"]
AWF = ["AwSingle", "AwCoAwait", "AwVariadic", "AwIter"]


def when_groups(cells, maxn):
    """(kind, pol, form, ik, vs, oc, timing) -> list of n"""
    groups = collections.OrderedDict()
    for k in range(3):
        for p in range(3):
            if k != 1 and p == 2:
                continue
            for form in range(2):
                for ik in range(3):
                    for vs in range(3):
                        if form == 0:
                            if ik == 2 or vs == 2:
                                continue
                            ns = list(range(0, maxn + 1))
                        else:
                            ns = sorted(n for (k2, p2, ik2, vs2, n) in cells["whenvar"] if (k2, p2, ik2, vs2) == (k, p, ik, vs))
                            if not ns:
                                continue
                        for oc in range(3):
                            for tm in range(2):
                                groups[(k, p, form, ik, vs, oc, tm)] = ns
    return groups


def wait_groups(cells, maxn):
    groups = collections.OrderedDict()
    for fn in range(3):
        for form in range(2):
            for ik in range(3):
                if fn != 0 and ik != 0:
                    continue
                if form == 0 and ik == 2:
                    continue
                ns = list(range(1, maxn + 1)) if form == 0 else sorted(n for (f2, i2, n) in cells["waitvar"] if (f2, i2) == (fn, ik))
                for tm in range(4):
                    if tm == 2 and fn == 0:
                        continue
                    groups[(fn, form, ik, tm)] = ns
    return groups


def await_groups(cells, maxn):
    groups = collections.OrderedDict()
    for form in range(4):
        for ik in (0, 1, 2, 3):
            if form in (0, 1) and ik == 2:
                continue
            if form in (2, 3) and ik == 3:
                continue
            if form == 3 and ik == 2:
                continue
            if form in (0, 1):
                ns = [1]
            elif form == 2:
                ns = sorted(n for (i2, n) in cells["awaitvar"] if i2 == ik)
            else:
                ns = list(range(1, maxn + 1))
            for tm in range(2):
                groups[(form, ik, tm)] = ns
    return groups


# ------------------------------------------------------------------------------------------------ running

def run_programs(exe, lines, name, chunks=None):
    """run the harness over the lines (split in parallel chunks); returns list of dict (None where no output)"""
    chunks = chunks or max(1, min(vlib.NPROC // 2, len(lines) // 2000 + 1))
    d = os.path.join(vlib.CACHE, "c20_runs")
    os.makedirs(d, exist_ok=True)
    size = (len(lines) + chunks - 1) // chunks
    parts = [(i, lines[i:i + size]) for i in range(0, len(lines), size)]

    def one(part):
        off, ls = part
        path = os.path.join(d, "%s_%d_%d.txt" % (name, os.getpid(), off))
        with open(path, "w") as f:
            f.write("\n".join(ls) + "\n")
        rows, out, err, rc = runner.run_harness(exe, ["--programs", path], timeout=1500)
        try:
            os.remove(path)
        except OSError:
            pass
        return off, len(ls), rows, err, rc

    res = [None] * len(lines)
    problems = []
    with concurrent.futures.ThreadPoolExecutor(max_workers=chunks) as ex:
        for off, n, rows, err, rc in ex.map(one, parts):
            for r in rows:
                if "i" in r:
                    res[off + r["i"]] = r
            if rc != 0:
                done = max([r["i"] for r in rows if "i" in r] or [-1])
                problems.append((off + done + 1, rc, (err or "")[-600:]))
    return res, problems


def frames_codes(fr):
    out = []
    for tok in fr.split(","):
        if tok:
            k, c = tok.split(":")
            out.append(2 * int(k) + int(c))
    return sorted(out)


HEADER = "From Coq Require Import List. Import ListNotations.\nFrom YV Require Import model.Alloc model.AllocObs.\n"


def main(ck):
    ck.assumptions = [
        "what is counted: calls of the global operator new / new[] (every overload, replaced in the harness) between two points of a run; "
        "a std::vector buffer is one block whatever n; exception objects come from __cxa_allocate_exception (malloc) and are the user's; "
        "a coroutine frame is one block requested by the compiler per coroutine call and holds the library's core",
        "single-threaded programs driven to quiescence on inline / manual / strand / stopped-inline executors; blocking Wait/Get are released by one "
        "helper thread whose own allocations (none observed) are included in the count",
        "g++ 12 -O1, libstdc++; configurations B (C++17) and BC (C++20, coroutines); compile-time type space closed by the harness cell table "
        "(handle type x attach x parameter class x return class), value types int / void, error type StopError",
        "payload copies: pipelines are also run over Future/FutureOn/Task<HeavyV | void, HeavyE> (full then/detach/run cell table of that family, no shared "
        "futures); HeavyV / HeavyE count their copy constructions and allocate in them through operator new, tallied apart from the library's blocks; "
        "callbacks take payloads by value (the library is expected to move them in)",
        "variadic combinator forms are instantiated for n = 1..64 on futures of int and for n in {1,2,3,4,5,8,16,17,33} on the other input combinations "
        "(shared, mixed value types, futures mixed with shared futures); iterator forms for n = 0..64 everywhere",
    ]
    ck.cov["trusted_base"] = [
        "Coq 8.16.1 kernel + vm_compute (evaluation of Alloc.eval / when_allocs / ... on the explored programs, Example witnesses)",
        "Print Assumptions of every theorem in Properties_C20.v (recorded in print_assumptions)",
        "checks/c20.py: the two printers of one program AST (harness text, Gallina term) and the fixed-shape program encodings",
        "harness/h_c20.cpp: operator new replacement, interpreter, cell table (every cell is compiled), step counter used by the oracle",
    ]
    ck.prove("props/Properties_C20.v", ["model/AllocObs.vo"])
    thorough = ck.tier == "thorough"
    rng = random.Random(ck.seed * 7919 + 20)
    t0 = time.time()
    with concurrent.futures.ThreadPoolExecutor(max_workers=2) as ex:
        builds = dict(zip(("B", "BC"), ex.map(build_harness, ("B", "BC"))))
    ck.cov["build_s"] = round(time.time() - t0, 1)
    total_eval = 0
    validated = 0
    nontrivial = set()
    dist = collections.Counter()
    samples = []
    per_cfg = {}
    coq_terms, coq_meta = [], []

    for cfg in ("B", "BC"):
        exe, b = builds[cfg]
        cells = read_cells(exe)
        maxn = cells["config"].get("maxn", 64)
        coro = cells["config"].get("coro", 0) == 1
        gen = Gen(cells, coro, rng)
        info = dict(cells=dict(then=len(cells["then"]), detach=len(cells["detach"]), run=len(cells["run"]),
                               whenvar=len(cells["whenvar"]), waitvar=len(cells["waitvar"]), awaitvar=len(cells["awaitvar"])))
        # ---- programs
        pipes = gen.systematic(2 if thorough else 1)
        nsys = len(pipes)
        nrand = (40000 if thorough else 4000)
        for i in range(nrand):
            budget = [rng.choice([4, 8, 12, 16] if thorough else [4, 6, 8, 12])]
            pipes.append(gen.pipe(None, rng.choice([0, 1, 2, 3]), budget, max_steps=rng.choice([1, 2, 3, 4, 6, 8] if thorough else [1, 2, 3, 4, 5])))
        # the heavy family: Future / FutureOn / Task over <HeavyV | void, HeavyE> (payloads whose COPY is counted and allocates)
        hgen = Gen(cells, coro, rng, heavy=True)
        hpipes = hgen.systematic(2 if thorough else 1)
        nhsys = len(hpipes)
        nhrand = (15000 if thorough else 2500)
        for i in range(nhrand):
            budget = [rng.choice([4, 8, 12, 16] if thorough else [4, 6, 8, 12])]
            hpipes.append(hgen.pipe(None, rng.choice([0, 1, 2, 3]), budget, max_steps=rng.choice([1, 2, 3, 4, 6, 8] if thorough else [1, 2, 3, 4, 5])))
        nlight = len(pipes)
        pipes += hpipes
        lines = ["pipe " + wire(p) for p in pipes]
        meta = [("pipe", p) for p in pipes]
        wg = when_groups(cells, maxn)
        for g, ns in wg.items():
            for n in ns:
                lines.append("when %d %d %d %d %d %d %d %d" % (g + (n,)))
                meta.append(("when", g, n))
        wtg = wait_groups(cells, maxn)
        for g, ns in wtg.items():
            for n in ns:
                lines.append("wait %d %d %d %d %d" % (g + (n,)))
                meta.append(("wait", g, n))
        for w in (0, 1, 2, 3):
            for tv in (0, 1):
                for tm in (0, 1):
                    for how in ((0, 1) if w == 3 else (0,)):
                        lines.append("get %d %d %d %d" % (w, tv, tm, how))
                        meta.append(("get", (w, tv, tm, how)))
        for existing in (1, 0):
            for under in (0, 1):
                for n in range(0, maxn + 1):
                    lines.append("strand %d %d %d" % (existing, n, under))
                    meta.append(("strand", (existing, under), n))
        ag = await_groups(cells, maxn) if coro else {}
        for g, ns in ag.items():
            for n in ns:
                lines.append("await %d %d %d %d" % (g + (n,)))
                meta.append(("await", g, n))
        res, problems = run_programs(exe, lines, "c20_" + cfg)
        for at, rc, err in problems:
            ck.hits.append(dict(what="%s: harness died (rc=%d) at program %s  %s" % (cfg, rc, lines[at] if at < len(lines) else "?", err),
                                key="crash", replay=dict(harness="h_c20", config=cfg, lines=[lines[at]] if at < len(lines) else [])))
        info["programs"] = len(lines)
        info["pipelines_systematic"] = nsys
        info["pipelines_random"] = nrand
        info["heavy_pipelines_systematic"] = nhsys
        info["heavy_pipelines_random"] = nhrand
        total_eval += sum(1 for r in res if r is not None and not r.get("skip"))

        # ---- oracle (property text only) + collect model terms
        by_group = collections.defaultdict(dict)
        observed = collections.Counter()
        copy_hits = collections.Counter()
        copies_seen = collections.Counter()
        per_call = collections.Counter()   # "<API call kind>:<blocks requested inside it>" over every executed call
        for i, (m, r) in enumerate(zip(meta, res)):
            if r is None or r.get("skip"):
                if r is None and not problems:
                    ck.broken.append(dict(name="harness produced no output for a program", detail=lines[i]))
                continue
            kind = m[0]
            if kind == "pipe":
                p = m[1]
                if r["news"] > r["steps"]:
                    ck.hits.append(dict(what="%s: pipeline requested %d blocks for %d pipeline steps (calls: %s): %s" %
                                        (cfg, r["news"], r["steps"], r["frames"], lines[i]), key="pipe:more-than-one-per-step",
                                        replay=dict(harness="h_c20", config=cfg, lines=[lines[i]])))
                heavy = p["src"][1].startswith("H")
                if r["vcopies"] or r["ecopies"]:
                    # every copy the library makes of a heap-owning payload is one more block for the step that makes it
                    key = "copy:payload-copied"
                    if copy_hits[key] < 25:
                        ck.hits.append(dict(what="%s: the library copied the payload (value %d, error %d times; %d callbacks took the error by value) "
                                                 "instead of moving it: %d extra block(s) over %d pipeline steps: %s" %
                                                 (cfg, r["vcopies"], r["ecopies"], r["ecalls"], r["payload"], r["steps"], lines[i]),
                                            key=key, replay=dict(harness="h_c20", config=cfg, lines=[lines[i]])))
                    copy_hits[key] += 1
                if heavy:
                    copies_seen["value=%d error=%d by_value_error_callbacks=%d" % (r["vcopies"], r["ecopies"], r["ecalls"])] += 1
                n, depth, kinds = count_steps(p)
                dist[(cfg, ("heavy " if heavy else "") + p["src"][0], min(n, 9), min(depth, 3))] += 1
                observed["pipe blocks=%d" % r["news"]] += 1
                for tok in r["frames"].split(","):
                    if tok:
                        per_call[tok] += 1
                coq_terms.append("obs_pipe %s" % gallina(p))
                coq_meta.append((cfg, i, lines[i], r, p))
            elif kind == "when":
                by_group[("when",) + m[1]][m[2]] = (r, lines[i])
            elif kind == "wait":
                g = m[1]
                if g[2] == 0 and r["news"] != 0:   # futures only: the property's scope
                    ck.hits.append(dict(what="%s: %s over %d futures requested %d blocks: %s" % (cfg, ["Wait", "WaitFor", "WaitUntil"][g[0]], m[2], r["news"], lines[i]),
                                        key="wait:allocates", replay=dict(harness="h_c20", config=cfg, lines=[lines[i]])))
                by_group[("wait",) + g][m[2]] = (r, lines[i])
            elif kind == "get":
                if r["news"] != 0:
                    ck.hits.append(dict(what="%s: Get requested %d blocks: %s" % (cfg, r["news"], lines[i]), key="get:allocates",
                                        replay=dict(harness="h_c20", config=cfg, lines=[lines[i]])))
                by_group[("get",) + m[1]][0] = (r, lines[i])
            elif kind == "strand":
                if m[1][0] == 1 and r["news"] != 0:
                    ck.hits.append(dict(what="%s: Strand::Submit of %d existing jobs requested %d blocks: %s" % (cfg, m[2], r["news"], lines[i]),
                                        key="strand:allocates", replay=dict(harness="h_c20", config=cfg, lines=[lines[i]])))
                by_group[("strand",) + m[1]][m[2]] = (r, lines[i])
            elif kind == "await":
                g = m[1]
                if g[1] in (0, 3) and r["await"] != 0:   # futures / a task: the property's scope
                    ck.hits.append(dict(what="%s: co_await (form %s) of %d futures requested %d blocks: %s" % (cfg, AWF[g[0]], m[2], r["await"], lines[i]),
                                        key="await:allocates", replay=dict(harness="h_c20", config=cfg, lines=[lines[i]])))
                by_group[("await",) + g][m[2]] = (r, lines[i])
        # combinators: no growth with n
        for g, rows in by_group.items():
            if g[0] != "when":
                continue
            if g[4] != 0:
                continue  # the property speaks about plain futures; shared inputs are compared with the model only
            small = [rows[n][0]["total"] for n in rows if n <= 16]
            for n in sorted(rows):
                if n > 16 and small and rows[n][0]["total"] > max(small):
                    ck.hits.append(dict(what="%s: %s<%s> %s form over %d futures requested %d blocks, at most %d for n <= 16" %
                                        (cfg, KINDS[g[1]], POLS[g[2]], FORMS[g[3]], n, rows[n][0]["total"], max(small)),
                                        key="when:grows-with-n:%s" % KINDS[g[1]],
                                        replay=dict(harness="h_c20", config=cfg, lines=[rows[k][1] for k in sorted(rows)], group=list(g))))
                    break
        # ---- model terms for the fixed-shape programs: one term per group
        for g, rows in by_group.items():
            if not rows:
                continue
            top = max(rows)
            if g[0] == "when":
                term = "obs_when %s %s %s %s %s %s %s %d" % (KINDS[g[1]], POLS[g[2]], FORMS[g[3]], IKS[g[4]], VSS[g[5]], OCS[g[6]], TIMS[g[7]], top)
            elif g[0] == "wait":
                term = "obs_wait %s %s %s %d" % (WFUN[g[1]], FORMS[g[2]], IKS[g[3]], top)
            elif g[0] == "get":
                term = "obs_get %s %s" % (["WF", "WO", "WT", "WS"][g[1]], "true" if g[3] == 0 else "false")
            elif g[0] == "strand":
                term = "obs_strand %s %d" % ("true" if g[1] == 1 else "false", top)
            else:
                term = "obs_await %s %s %d" % (AWF[g[1]], IKS[g[2] if g[2] < 3 else 0], top)
            coq_terms.append(term)
            coq_meta.append((cfg, g, rows))
        info["observed_when_totals"] = dict(collections.Counter(
            "%s/%s/%s/%s=%d" % (KINDS[g[1]], FORMS[g[3]], IKS[g[4]], VSS[g[5]], r[0]["total"])
            for g, rows in by_group.items() if g[0] == "when" for n, r in rows.items() if n >= 2))
        info["observed_pipe_blocks"] = dict(observed)
        info["heavy_payload_copies_observed"] = dict(copies_seen)
        info["payload_copy_hits"] = dict(copy_hits)
        names = ["conversion", "MakeFuture/MakeTask", "contract", "Run/Schedule", "AsyncContract/LazyContract", "coroutine", "Then*",
                 "Detach*(f)/Subscribe*", "Detach()", "Split", "Share"]
        info["blocks_per_api_call"] = {"%s -> %s block(s)" % (names[int(k.split(":")[0])], k.split(":")[1]): v for k, v in sorted(per_call.items())}
        info["when_n_range"] = [0, maxn]
        info["groups"] = dict(when=len(wg), wait=len(wtg), await_=len(ag))
        per_cfg[cfg] = info
        # samples
        for i in (0, nsys // 2, nsys + 1, nsys + 2):
            if i < len(res) and res[i]:
                samples.append(dict(config=cfg, program=lines[i], observed=res[i]))
        for i in range(len(pipes), len(lines), max(1, (len(lines) - len(pipes)) // 4)):
            if res[i]:
                samples.append(dict(config=cfg, program=lines[i], observed=res[i]))

    # ---- correspondence: the exact numbers, inside Coq
    model, logs = vlib.coq_eval_cases(HEADER, coq_terms, "c20", shard=600) if coq_terms else ([], [])
    bad = []
    skipped_wf = 0
    for mt, val, term in zip(coq_meta, model, coq_terms):
        cfg = mt[0]
        if val is None:
            bad.append((cfg, term[:300], "model evaluation failed"))
            continue
        if len(mt) == 5:
            _, i, line, r, p = mt
            wf, blocks, steps, calls, st, m_ecopies, m_vcopies = val[:7]
            sites = sorted(val[7:])
            heavy = p["src"][1].startswith("H")
            why = None
            if wf != 1:
                skipped_wf += 1     # a step inherits the executor of a coroutine that awaits: outside the model (oracle still applied)
                continue
            if blocks != r["news"]:
                why = "model: %d blocks, implementation: %d" % (blocks, r["news"])
            elif steps != r["steps"]:
                why = "model: %d executed steps, implementation: %d" % (steps, r["steps"])
            elif calls != r["calls"]:
                why = "model: %d callbacks invoked, implementation: %d" % (calls, r["calls"])
            elif r["final"] in (0, 1, 2) and st != r["final"]:
                why = "model: final state %d, implementation: %d" % (st, r["final"])
            elif r["final"] in (4, 5, 6):
                why = "implementation: final handle not ready / unstarted (%d)" % r["final"]
            elif sites != frames_codes(r["frames"]):
                why = "model sites %s, implementation calls %s" % (sites, frames_codes(r["frames"]))
            elif heavy and (r["ecopies"], r["vcopies"]) != (m_ecopies, m_vcopies):
                why = "model: %d error / %d value payload copies, implementation: %d / %d" % (m_ecopies, m_vcopies, r["ecopies"], r["vcopies"])
            elif r["payload"] != r["ecopies"] + r["vcopies"]:
                why = "harness: %d payload blocks for %d copies" % (r["payload"], r["ecopies"] + r["vcopies"])
            elif r["outside"] != 0 or r["other"] != 0:
                why = "implementation requested %d blocks outside any API call, %d on another thread" % (r["outside"], r["other"])
            if why:
                bad.append((cfg, line, why))
            else:
                validated += 1
                n, depth, nfns = count_steps(p)
                if depth >= 1 or r["calls"] < nfns:
                    nontrivial.add(line)
        else:
            _, g, rows = mt
            for n, (r, line) in sorted(rows.items()):
                why = None
                if g[0] == "when":
                    mb, mtot = val[2 * n], val[2 * n + 1]
                    if (mb, mtot) != (r["build"], r["total"]):
                        why = "model: (%d in the call, %d in all), implementation: (%d, %d)" % (mb, mtot, r["build"], r["total"])
                    elif n >= 1 and r["ready"] != 1 and r["valid"] == 1:
                        why = "combinator result not ready after all inputs were fulfilled"
                elif g[0] == "wait":
                    if val[n] != r["news"]:
                        why = "model: %d, implementation: %d" % (val[n], r["news"])
                    elif g[4] != 2 and r["ret"] != 1:
                        why = "wait returned %d" % r["ret"]
                elif g[0] == "get":
                    if val[0] != r["news"]:
                        why = "model: %d, implementation: %d" % (val[0], r["news"])
                elif g[0] == "strand":
                    if val[n] != r["news"]:
                        why = "model: %d, implementation: %d" % (val[n], r["news"])
                    elif r["ran"] != n:
                        why = "%d of %d jobs ran" % (r["ran"], n)
                else:
                    if (val[2 * n], val[2 * n + 1]) != (r["await"], r["call"]):
                        why = "model: (await %d, call %d), implementation: (%d, %d)" % (val[2 * n], val[2 * n + 1], r["await"], r["call"])
                    elif r["ready"] != 1:
                        why = "coroutine not finished"
                if why:
                    bad.append((cfg, line, why))
                else:
                    validated += 1
                    if n >= 2:
                        nontrivial.add(cfg + ":" + line)
    for cfg, line, why in bad[:12]:
        ck.broken.append(dict(name="correspondence Alloc model vs implementation (%s): %s" % (cfg, line[:160]), detail="%s\n%s" % (why, line)))
    if len(bad) > 12:
        ck.notes.append("%d correspondence mismatches in total" % len(bad))
    if validated == 0:
        ck.broken.append(dict(name="correspondence Alloc model vs implementation", detail="nothing validated\n" + "\n".join(l[-1500:] for l in logs[:2])))
    ck.cov["evaluations"] = total_eval
    ck.cov["programs_outside_model_scope"] = skipped_wf
    ck.cov["traces_validated_against_impl"] = validated
    ck.cov["programs"] = total_eval
    ck.cov["disagreements_checked"] = validated
    ck.cov["distinct_nontrivial"] = len(nontrivial)
    ck.cov["exhaustive"] = False
    ck.cov["rule"] = (
        "per configuration (B, BC): pipelines = every source form alone; every then/detach/run cell of the harness table x every behaviour "
        "(return, throw, Result value/error/exception, async inner pipeline ready / late / with a step) x input state (value, error, exception, late) "
        "x executor (inline, manual, strand, stopped); every pipeline of a source + <= 3 (thorough: 4) steps over a reduced alphabet "
        "(ThenInline / Then(manual) x Result- or value-taking x plain or unwrapping, and every conversion); plus seeded random typed pipelines "
        "(nesting depth <= 3); the same generators over the heavy family (value / error / exception inputs, skipped value-taking steps, recovery "
        "callbacks, unwrapping, lazy Task, stopped executors = rejected submissions), where payload copies are counted.  Fixed-shape programs = WhenAll/WhenAny/Join x policy x iterator|variadic x inputs (futures, shared, both) x values "
        "(int, void, mixed) x outcome (all ok, first fails, last fails) x inputs early|late x n; Wait/WaitFor/WaitUntil x form x inputs x "
        "(ready, released by another thread, timeout, half ready) x n = 1..64; Get x handle x value type x ready|blocking; Strand::Submit x n = 0..64; "
        "co_await forms x inputs x ready|suspending x n (BC).  Every program's counts are compared with the model's.  distinct = program text; "
        "non-trivial = a pipeline with a nested (unwrapped / awaited) pipeline or one in which some written callback was not invoked, or a fixed-shape program with n >= 2")
    ck.cov["samples"] = samples[:14]
    ck.cov["per_config"] = per_cfg
    ck.cov["pipeline_distribution"] = {"%s src=%s steps=%s%s depth=%d" % (k[0], k[1], k[2], "+" if k[2] == 9 else "", k[3]): v
                                       for k, v in sorted(dist.items())}


def replay(ck, path):
    d = json.load(open(path))
    rp = d.get("replay") or {}
    lines = rp.get("lines") or []
    if not lines:
        print("nothing to replay: %s" % json.dumps(d)[:2000])
        return 0
    exe, b = build_harness(rp.get("config", "B"))
    bad = False
    rows = []
    for line in lines:
        r = subprocess.run([exe, "--one", line], stdout=subprocess.PIPE, stderr=subprocess.PIPE, text=True, timeout=120)
        print(line)
        print("   " + r.stdout.strip().split("\n")[-1] + (("  rc=%d %s" % (r.returncode, r.stderr[-300:])) if r.returncode else ""))
        if r.returncode != 0:
            bad = True
            continue
        try:
            rows.append((line, json.loads(r.stdout.strip().split("\n")[-1])))
        except Exception:
            bad = True
    for line, o in rows:
        t = o.get("t")
        if t == "pipe" and (o["news"] > o["steps"] or o.get("vcopies", 0) or o.get("ecopies", 0)):
            bad = True
        if t in ("wait", "get") and o.get("news", 0) != 0 and not (t == "wait" and line.split()[3] != "0"):
            bad = True
        if t == "strand" and line.split()[1] == "1" and o["news"] != 0:
            bad = True
        if t == "await" and line.split()[2] in ("0", "3") and o["await"] != 0:
            bad = True
    whens = [(int(l.split()[8]), o["total"]) for l, o in rows if o.get("t") == "when" and "total" in o]
    small = [t for n, t in whens if n <= 16]
    if small and any(t > max(small) for n, t in whens if n > 16):
        bad = True
    print("replay: property %s" % ("VIOLATED" if bad else "holds on this input"))
    return 1 if bad else 0
