"""C16 — WaitGroup / OneShotEvent release every waiter exactly when the count hits zero.
Proof: coq/props/Properties_C16.v (invariant of the Event LTS: any number of Add/Done threads, waiters of every kind,
       attached / consumed futures; all schedules).
Tie:   the real yaclib::WaitGroup<> / OneShotEvent run on the FIBER backend under the schedule explorer (exhaustive DFS
       for the small programs, each once with the fiber switch offered before every wrapped operation and once with the
       switch offered after it; seeded random walks, switch at both places, for 3 workers + 3 waiters of mixed kinds);
       every distinct trace is
       mapped token by token to model events (with the observed values) and replayed through Event.run inside Coq;
       the model must accept every event and predict the observed releases, timeouts, destructions and values.
Oracle (property text only) runs inside the harness on every execution."""
import concurrent.futures, json, os, re
import vlib, runner

HARNESS = os.path.join(vlib.VERIF, "harness", "h_c16.cpp")
KINDS = {"block": "KBlock", "timed": "KTimed", "inline": "KInline", "sticky": "KSticky", "on": "KOn", "job": "KJob"}
FW = {"E": "WE", "C": "WC", "R": "WR"}
PC_DONE, PC_TMO = 8, 9


def hv(tok):
    if tok == "E":
        return "HE"
    if tok == "A":
        return "HA"
    m = re.match(r"J(\d+)$", tok)
    if not m:
        raise ValueError("unknown head value " + tok)
    return "(HJ %s)" % m.group(1)


def to_events(trace):
    """Implementation trace -> (n0, Gallina events, observations).  Purely syntactic: one model event per traced
    operation / harness marker; the value returned by an exchange / fetch_sub and the success of a CAS are
    reconstructed from the previous value of that location (the FIBER backend is sequentially consistent); the
    boolean returned by a timed wait is taken from the marker printed when that very call returns."""
    toks = [t for t in trace.split(";") if t]
    if not toks or not toks[0].startswith("main:!prog "):
        raise ValueError("trace does not start with the program description")
    m = re.match(r"main:!prog n0=(\d+) W=([a-z,]*) F=([ac,]*)$", toks[0])
    n0 = int(m.group(1))
    wkinds = [k for k in m.group(2).split(",") if k]
    fkinds = [k for k in m.group(3).split(",") if k]
    evs = ["ENewW %s" % KINDS[k] for k in wkinds] + ["ENewF %s" % ("FAttach" if k == "a" else "FConsume") for k in fkinds]
    obs = dict(rels=[], tmo=[], frees={}, finals=[], readys=[])
    cur_h, cur_c = "E", n0
    fw = ["E"] * len(fkinds)
    # one Attach / Consume call in progress per fiber: js = its futures, batch = several futures in one call (marker
    # B/K), added = the call's Add was seen, st[j] = ld (SetCallback's load next) | cas | ok | failed, subbed = the
    # call's final Done was seen
    attach = {}
    alias = {}           # worker fiber -> waiter it acts as (marker "as k")
    wfiber = {}          # waiter -> fiber that runs it
    pcb = {}             # producer fiber -> j while its callback runs
    wloads = {}          # waiter -> number of loads of the head so far
    fload = {}           # (fiber, future) -> index in evs of that fiber's latest unclaimed load of the future's word
    began = {}           # sticky waiter -> saw its begin marker

    def timed_result(k, start):
        fib = wfiber.get(k, "W%d" % k)
        for t in toks[start:]:
            if t == "%s:!rel %d" % (fib, k):
                return "true"
            if t == "%s:!tmo %d" % (fib, k):
                return "false"
        raise ValueError("timed waiter %d never returned" % k)

    def glist(js):
        return "[%s]" % "; ".join(str(j) for j in js)

    for idx, tok in enumerate(toks[1:], start=1):
        who, _, rest = tok.partition(":")
        wk = int(who[1:]) if re.match(r"W\d+$", who) else alias.get(who)
        if rest.startswith("!"):
            txt = rest[1:]
            a = txt.split()
            if a[0] == "op" and a[1] in ("A", "C", "B", "K"):
                js = [int(x) for x in a[2].split(",")]
                attach[who] = dict(js=js, batch=a[1] in ("B", "K"), added=False, st={j: "ld" for j in js}, subbed=False)
            elif a[0] == "as":
                alias[who] = int(a[1])
                wfiber[int(a[1])] = who
                wk = int(a[1])
            elif a[0] == "op" and a[1] == "S":
                evs.append("EUserSet")
            elif a[0] == "submit":
                pass                      # handled at the release marker that follows it
            elif a[0] == "begin":
                began[int(a[1])] = True
            elif a[0] == "rel":
                k = int(a[1])
                obs["rels"].append(k)
                kind = wkinds[k]
                if wk == k:
                    if kind == "on":
                        evs += ["ESelfSubmit %d" % k, "ERun %d" % k]
                    else:
                        evs.append("ERet %d" % k)
                else:
                    if kind in ("inline", "job"):
                        evs.append("ECall %d" % k)
                    elif kind in ("sticky", "on"):
                        evs += ["ECall %d" % k, "ERun %d" % k]
                    else:
                        raise ValueError("release marker of waiter %d printed by %s" % (k, who))
            elif a[0] == "tmo":
                obs["tmo"].append(int(a[1]))
                evs.append("ETmo %s" % a[1])
            elif a[0] == "set":
                evs.append("EFStore %s %s" % (a[1], a[2]))
            elif a[0] == "free":
                j = int(a[1])
                obs["frees"][j] = obs["frees"].get(j, 0) + 1
                if who == "P%d" % j:
                    evs.append("EFRelP %d" % j)
                elif who in attach and attach[who]["st"].get(j) == "failed":
                    evs.append("EFRelA %d" % j)
                else:
                    raise ValueError("state of future %d destroyed by %s" % (j, who))
            elif a[0] == "ready":
                # Ready() is the load of the future's word by this fiber that precedes the marker; with the switch
                # offered after an operation other fibers' operations can lie between the two
                at = fload.pop((who, int(a[1])), None)
                if at is None:
                    raise ValueError("Ready() marker without a preceding load of the word by the same fiber: " + tok)
                evs[at] = "EFReady %s %s" % (a[1], "true" if a[2] == "1" else "false")
                obs["readys"].append((at, int(a[1]), int(a[2])))
            elif a[0] == "final":
                evs.append("EFGet %s" % a[1])
                obs["finals"].append((int(a[1]), a[2]))
            else:
                raise ValueError("unknown harness marker " + tok)
            continue
        m = re.match(r"([a-z_]+)@([a-z])(\d*)=(.*)$", rest)
        if not m:
            raise ValueError("unknown trace token " + tok)
        op, loc, num, val = m.group(1), m.group(2), m.group(3), m.group(4)
        if loc == "c":
            v = int(val)
            if v < 0:
                raise ValueError("the counter wrapped below zero: " + tok)
            if op == "fetch_add":
                at = attach.get(who)
                if at is not None and not at["added"]:
                    # InsertRange: ONE Add for the whole call, before any callback is installed
                    if v - cur_c != len(at["js"]):
                        raise ValueError("the Add of an Attach/Consume call for %d futures added %d: %s" % (len(at["js"]), v - cur_c, tok))
                    evs.append("EFAddN %s %d" % (glist(at["js"]), v) if at["batch"] else "EFAdd %d %d" % (at["js"][0], v))
                    at["added"] = True
                elif at is not None and not at["subbed"] and any(x in ("ld", "cas") for x in at["st"].values()):
                    raise ValueError("a second Add inside one Attach/Consume call: " + tok)
                else:
                    evs.append("EAdd %d %d" % (v - cur_c, v))
            elif op == "fetch_sub":
                at = attach.get(who)
                failed = [j for j in at["js"] if at["st"][j] == "failed"] if at is not None and not at["subbed"] else []
                if failed and all(x in ("ok", "failed") for x in at["st"].values()):
                    # the call's final Done(count - wait_count)
                    if cur_c - v != len(failed):
                        raise ValueError("the Done of an Attach/Consume call with %d failed futures subtracted %d: %s" % (len(failed), cur_c - v, tok))
                    evs.append("EFSubN %s %d" % (glist(failed), v) if at["batch"] else "EFSubA %d %d" % (failed[0], v))
                    at["subbed"] = True
                elif who in pcb:
                    evs.append("EFSubP %d %d" % (pcb[who], v))
                    del pcb[who]
                else:
                    evs.append("ESub %d %d" % (cur_c - v, v))
            elif op == "load":
                pass
            else:
                raise ValueError("unexpected operation on the counter: " + tok)
            cur_c = v
        elif loc == "h":
            if op == "exchange":
                evs.append("EXchg %s" % hv(cur_h))
            elif op == "load":
                if wk is None:
                    raise ValueError("head loaded by a non-waiter: " + tok)
                n = wloads.get(wk, 0)
                wloads[wk] = n + 1
                first = 1 if wkinds[wk] in ("inline", "sticky") else 0
                if n < first:
                    evs.append("EReadyChk %d %s" % (wk, hv(val)))
                elif n == first:
                    evs.append("ETryLd %d %s" % (wk, hv(val)))
                else:
                    # the fault layer implements a spurious failure of the weak CAS as "expected = load()"
                    evs.append("ETryCas %d %s" % (wk, hv(val)))
            elif op == "compare_exchange_weak":
                if wk is None:
                    raise ValueError("head CASed by a non-waiter: " + tok)
                evs.append("ETryCas %d %s" % (wk, hv(val)))
            else:
                raise ValueError("unexpected operation on the head: " + tok)
            cur_h = val
        elif loc == "f":
            j = int(num)
            if op == "exchange":
                evs.append("EFXchg %d %s" % (j, FW[fw[j]]))
                if fw[j] == "C":
                    pcb[who] = j
                fw[j] = val
            elif op == "compare_exchange_strong":
                ok = fw[j] == "E" and val == "C"
                evs.append("EFCas %d %s" % (j, "true" if ok else "false"))
                fw[j] = val
                if who in attach and attach[who]["st"].get(j) == "cas":
                    attach[who]["st"][j] = "ok" if ok else "failed"
            elif op == "load":
                if who in attach and attach[who]["st"].get(j) == "ld":
                    if not attach[who]["added"]:
                        raise ValueError("SetCallback before the Add of its Attach/Consume call: " + tok)
                    evs.append("EFLd %d %s" % (j, FW[val]))
                    attach[who]["st"][j] = "cas" if val == "E" else "failed"
                else:
                    # Ready() (claimed by the marker that follows in this fiber), ~ResultCore's assertion, the final Get
                    fload[(who, j)] = len(evs)
                    evs.append(None)
            else:
                raise ValueError("unexpected operation on a future's word: " + tok)
        elif loc == "m":
            if op == "lock":
                evs.append("ECall %s" % num)
        elif loc == "v":
            k = int(num)
            evs.append("ETWake %d %s" % (k, timed_result(k, idx)))
        elif loc == "r":
            k = int(num)
            if op != "fetch_sub":
                raise ValueError("unexpected operation on a reference counter: " + tok)
            evs.append("%s %d %d" % ("EDecW" if wk == k else "EDecE", k, int(val) + 1))
        else:
            raise ValueError("unknown location in " + tok)
    # Ready() answers in the order of the loads (the order in which the model records them), not of the markers
    obs["readys"] = [(j, b) for _, j, b in sorted(obs["readys"])]
    return n0, wkinds, fkinds, [e for e in evs if e is not None], obs


def nontrivial(trace):
    """contended = some waiter operation on the head word lies strictly between the count reaching zero
    (the fetch_sub that returns to 0 / the Set marker) and the exchange that publishes all-done, or two parties'
    operations on the head interleave, or a timed waiter's wake-up lies between its Call and the event's DecRef"""
    toks = [t for t in trace.split(";") if t]
    zero = next((i for i, t in enumerate(toks) if re.search(r"fetch_sub@c=0$", t) or t.endswith("!op S")), None)
    xchg = next((i for i, t in enumerate(toks) if "exchange@h=" in t), None)
    if zero is not None and xchg is not None and any("@h=" in t for t in toks[zero + 1:xchg]):
        return True
    ops = [t.split(":")[0] for t in toks if "@h=" in t]
    fibers = set(ops)
    for a in fibers:
        idx = [i for i, x in enumerate(ops) if x == a]
        if any(x != a for x in ops[idx[0]:idx[-1]]):
            return True
    for t in toks:
        m = re.match(r"(\w+):lock@m(\d+)", t)
        if m:
            i = toks.index(t)
            k = m.group(2)
            j = next((n for n, x in enumerate(toks) if re.match(r"%s:fetch_sub@r%s=" % (m.group(1), k), x)), None)
            if j is not None and any(x.startswith("W%s:" % k) for x in toks[i:j]):
                return True
    return False


def decode(r):
    """inverse of EventObs.obs_nat"""
    it = iter(r)
    nx = lambda: next(it)
    d = dict(ok=nx())
    if d["ok"] == 0:
        d["at"] = nx()
        return d
    for k in ("broken", "crash", "uaf", "cnt", "fired", "pend", "todo", "incall", "alldone", "rule"):
        d[k] = nx()
    d["ws"] = [dict(pc=nx(), relc=nx(), frees=nx(), refs=nx(), called=nx()) for _ in range(nx())]
    d["fs"] = [dict(frel=nx(), holds=nx(), fw=nx(), ap=nx(), pp=nx()) for _ in range(nx())]
    d["rels"] = [(nx(), nx(), nx()) for _ in range(nx())]
    d["gots"] = [(nx(), nx()) for _ in range(nx())]
    d["readys"] = [(nx(), nx(), nx()) for _ in range(nx())]
    return d


def compare(d, wkinds, fkinds, obs):
    """model prediction vs what the implementation showed; returns None or a description of the difference"""
    if d["ok"] == 0:
        return "model rejects event #%d" % d["at"]
    if d["broken"] or not d["rule"]:
        return "model says the program left the documented rule of use (broken=%d rule=%d)" % (d["broken"], d["rule"])
    if d["crash"] or d["uaf"]:
        return "model predicts crash=%d use-after-free=%d" % (d["crash"], d["uaf"])
    if [x[0] for x in d["rels"]] != obs["rels"]:
        return "model releases %s, implementation released %s" % ([x[0] for x in d["rels"]], obs["rels"])
    if any(c != 0 or f != 1 for _, c, f in d["rels"]):
        return "model records a release with a non-zero count: %s" % d["rels"]
    if not (d["cnt"] == 0 and d["fired"] == 1 and d["pend"] == 0 and d["todo"] == 0 and d["incall"] == 0 and d["alldone"] == 1):
        return "model is not at rest at the end of the implementation run: %s" % {k: d[k] for k in ("cnt", "fired", "pend", "todo", "incall", "alldone")}
    for k, (w, kind) in enumerate(zip(d["ws"], wkinds)):
        want = PC_TMO if k in obs["tmo"] else PC_DONE
        if w["pc"] != want or w["relc"] != (0 if k in obs["tmo"] else 1):
            return "waiter %d (%s) ends in model state %d released %d times; implementation: %s" % (
                k, kind, w["pc"], w["relc"], "timed out" if k in obs["tmo"] else "released")
        if kind == "timed" and w["frees"] != 1:
            return "timed waiter %d destroyed %d times in the model" % (k, w["frees"])
    for j, (f, kind) in enumerate(zip(d["fs"], fkinds)):
        if f["holds"] or f["fw"] != 2:
            return "future %d still counted / not completed in the model at the end" % j
        if f["frel"] != obs["frees"].get(j, 0) or f["frel"] != (1 if kind == "c" else 0):
            return "future %d (%s): model released its state %d times, implementation %d" % (j, kind, f["frel"], obs["frees"].get(j, 0))
    mg = [(j, str(v - 1) if v > 0 else "garbage") for j, v in d["gots"]]
    if mg != obs["finals"]:
        return "model predicts owner reads %s, implementation read %s" % (mg, obs["finals"])
    if [(j, a) for j, a, _ in d["readys"]] != obs["readys"] or any(a != c for _, a, c in d["readys"]):
        return "Ready() answers differ: model %s implementation %s" % (d["readys"], obs["readys"])
    return None


def plan(ck):
    """(name for --exact / --only, extra args, config) per harness invocation"""
    quick = ck.tier != "thorough"
    jobs = []
    small = ["wg/block_vs_done", "wg/inline_vs_done", "wg/sticky_vs_done", "wg/on_vs_done", "wg/add_done",
             "wg/two_waiters", "wg/attach_vs_set", "wg/consume_alone", "ose/job_vs_set", "ose/block_vs_set",
             "ose/inline_vs_set", "ose/on_vs_set", "ose/two_jobs"] + ([] if quick else ["wg/consume_vs_set"])
    for n in small:
        jobs.append(dict(name=n, args=["--mode", "dfs", "--exact", n], cfg="F", exhaustive=True))
    for dl in ([10, 30] if quick else [10, 20, 30, 50, 80]):
        n = "wg/timed_vs_done/dl=%d" % dl
        jobs.append(dict(name=n, args=["--mode", "dfs", "--exact", n], cfg="F", exhaustive=True))
    for dl in ([20] if quick else [10, 30]):
        n = "wg/until_vs_done/dl=%d" % dl       # the same race through WaitUntil
        jobs.append(dict(name=n, args=["--mode", "dfs", "--exact", n], cfg="F", exhaustive=True))
    for dl in ([10] if quick else [10, 20, 30, 50, 80]):
        n = "ose/timed_vs_set/dl=%d" % dl
        jobs.append(dict(name=n, args=["--mode", "dfs", "--exact", n, "--max", "4000000"], cfg="F", exhaustive=True))
    # spurious failures of the weak CAS inside TryAdd
    for n in ["wg/block_vs_done", "wg/two_waiters"] + ([] if quick else ["ose/two_jobs", "wg/inline_vs_done"]):
        jobs.append(dict(name=n + " weak", args=["--mode", "dfs", "--exact", n, "--weak", "1" if quick else "2"], cfg="F", exhaustive=True))
    # one Attach / Consume call for several futures racing their producers (variadic and iterator forms; WaitGroup<0> with
    # the calling thread waiting afterwards, WaitGroup<0> with a concurrent waiter, WaitGroup<1> with the caller's own
    # unit); preemption-bounded except for the first one in the thorough tier
    def batch(n, pb):
        args = ["--mode", "dfs", "--exact", n] + (["--pb", str(pb)] if pb else [])
        jobs.append(dict(name=n + (" pb%d" % pb if pb else ""), args=args, cfg="F", exhaustive=not pb))
    if quick:
        batch("wg/batch_attach_seq", 3)
        batch("wg/batch_consume_seq", 2)
        batch("wg/batch_attach_it_timed/dl=20", 2)
        batch("wg/batch_consume_var_conc", 2)
        batch("wg/batch_attach_held", 2)
    else:
        batch("wg/batch_attach_seq", 0)
        batch("wg/batch_consume_seq", 3)
        for dl in (10, 20, 50):
            batch("wg/batch_attach_it_timed/dl=%d" % dl, 3)
        batch("wg/batch_consume_var_conc", 2)
        batch("wg/batch_attach_held", 2)
        batch("wg/batch3_consume_seq", 2)
    # seeded random: 3 workers + 3 waiters of mixed kinds (+ futures)
    mixes, walks = (12, 400) if quick else (40, 1000)
    jobs.append(dict(name="mix", args=["--mode", "random", "--only", "mix/", "--max", str(walks), "--seed", str(ck.seed),
                                       "--param", "mixes=%d" % mixes, "--param", "pseed=%d" % ck.seed], cfg="F", exhaustive=False))
    if not quick:
        for n in ["wg/block_inline", "wg/attach_block"]:
            jobs.append(dict(name=n, args=["--mode", "dfs", "--exact", n, "--max", "1000000"], cfg="F", exhaustive=False))
        # the TimedWaiter's lifetime under AddressSanitizer
        for n in ["wg/timed_vs_done/dl=10", "wg/timed_vs_done/dl=30", "ose/timed_vs_set/dl=20"]:
            jobs.append(dict(name=n + " asan", args=["--mode", "dfs", "--exact", n, "--max", "150000"], cfg="FA", exhaustive=False))
        jobs.append(dict(name="mix asan", args=["--mode", "random", "--only", "mix/", "--max", "1500", "--seed", str(ck.seed + 1),
                                                "--param", "mixes=30", "--param", "pseed=%d" % (ck.seed + 1)], cfg="FA", exhaustive=False))
    # where the explorer offers a fiber switch around a wrapped operation: every DFS job runs with the switch before the
    # operation and once more with the switch after it (a fiber stopped right after its CAS / exchange / fetch_sub, before
    # the plain code that follows); random walks offer both.  Quick tier: the after-pass skips the two secondary deadlines
    # of the timed race (the same code path as wg/timed_vs_done/dl=10, which has it).
    quick_skip_after = ("wg/timed_vs_done/dl=30", "wg/until_vs_done/dl=20", "wg/batch_consume_var_conc pb2", "wg/batch_attach_held pb2")
    out = []
    for j in jobs:
        if "dfs" in j["args"]:
            out.append(dict(j, ya="before", args=j["args"] + ["--yield-at", "before"]))
            if not quick or j["name"] not in quick_skip_after:
                out.append(dict(j, ya="after", name=j["name"] + " after", args=j["args"] + ["--yield-at", "after"]))
        else:
            out.append(dict(j, ya="both", args=j["args"] + ["--yield-at", "both"]))
    return out


def main(ck):
    ck.assumptions = [
        "FIBER backend: sequentially consistent, switches only at the wrapped yaclib_std operations (memory-order effects are C04's subject)",
        "the model is Event.v; the inside of the waiter's mutex+condition variable (C18), of the future's shared state (C01) and of the executor are exercised, not modelled",
        "OneShotEvent::Call / Reset and a counter wrapping below zero are outside the model (not used by WaitGroup / documented as not thread-safe)",
        "documented rule of use (Add only while the count is non-zero; Done only what was added) is the theorems' precondition follows_rule",
        "virtual time: 10 ns per scheduler step; timeouts are placed before/after the final Done by varying the deadline and by the explorer's schedule",
    ]
    ck.cov["trusted_base"] = [
        "Coq 8.16.1 kernel + vm_compute (used for replaying traces and in Example witnesses)",
        "Print Assumptions of every theorem in Properties_C16.v: Closed under the global context (no axioms)",
        "checks/c16.py trace-to-event mapping (syntactic) and harness/h_c16.cpp oracle + its naming of the waiters' internal locations",
        "YACLIB_VERIF hooks in the fault layer; FIBER scheduler, fiber mutex/condvar/atomics (C17-C19 are about those)",
    ]
    ck.prove("props/Properties_C16.v", ["model/EventObs.vo"])
    jobs = plan(ck)
    exes = {}
    for cfg in sorted(set(j["cfg"] for j in jobs)):
        exes[cfg], _ = vlib.compile_harness(cfg, [HARNESS], "c16")

    def run(j):
        # under ASan: abort on the first report, so that the harness' signal handler prints the decision vector
        env = dict(ASAN_OPTIONS="detect_leaks=1:detect_stack_use_after_return=1:abort_on_error=1:exitcode=71") if j["cfg"] == "FA" else None
        return j, runner.run_harness(exes[j["cfg"]], j["args"], timeout=1500, env=env)

    heads, traces = [], []
    with concurrent.futures.ThreadPoolExecutor(max_workers=vlib.NPROC) as ex:
        for j, (rows, out, err, rc) in ex.map(run, jobs):
            if rc != 0:
                m = re.search(r"CRASH signal=(\d+) choices=([\d,]*)", out + err)
                asan = re.search(r"ERROR: AddressSanitizer: ([a-z-]+)", out + err)
                # the scenario that died is the one after the last completed header of this invocation
                done = sum(1 for r in rows if "mode" in r)
                only = j["args"][j["args"].index("--exact") + 1] if "--exact" in j["args"] else "mix/%d " % done
                ck.hits.append(dict(what="harness %s (%s) died rc=%d %s %s" % (j["name"], j["cfg"], rc, asan.group(0) if asan else "", (err or out)[-1200:]),
                                    key="crash:" + (asan.group(1) if asan else str(rc)),
                                    replay=dict(harness="h_c16", config=j["cfg"], only=only, choices=m.group(2) if m else None,
                                                params=[a for a in j["args"] if a.startswith(("mixes=", "pseed="))],
                                                weak=("--weak" in j["args"]) and j["args"][j["args"].index("--weak") + 1],
                                                pb=("--pb" in j["args"]) and j["args"][j["args"].index("--pb") + 1],
                                                yield_at=j["ya"])))
            for r in rows:
                r["_job"] = j
                (heads if "mode" in r else traces).append(r)
    ck.cov["evaluations"] = sum(h["executions"] for h in heads)
    ck.cov["scenarios"] = len(heads)
    ck.cov["exhaustive_scenarios"] = sorted(h["scenario"] + (" +weak" if "weak" in h["_job"]["name"] else "") + " @" + h["_job"]["ya"]
                                            for h in heads if h["exhaustive"] and h["_job"]["exhaustive"])
    # "exhaustive" is about the whole exploration: it also contains seeded random walks (and, in the thorough tier,
    # capped DFS runs), so it is False; the small configurations listed in exhaustive_scenarios were explored completely
    ck.cov["exhaustive"] = bool(heads) and all(h["exhaustive"] for h in heads)
    ck.cov["exhaustive_small_configs"] = all(h["exhaustive"] for h in heads if h["_job"]["exhaustive"]) and bool(heads)
    if not ck.cov["exhaustive_small_configs"]:
        ck.broken.append(dict(name="exploration budget: a configuration meant to be explored exhaustively was cut",
                              detail=str([h["scenario"] for h in heads if h["_job"]["exhaustive"] and not h["exhaustive"]])))
    ck.cov["executions_by_scenario"] = {(h["scenario"][:40] + ("|weak" if "weak" in h["_job"]["name"] else "") + ("|asan" if h["_job"]["cfg"] == "FA" else "") + "@" + h["_job"]["ya"]): h["executions"]
                                        for h in heads if not h["scenario"].startswith("mix/")}
    ck.cov["executions_by_yield_at"] = {ya: sum(h["executions"] for h in heads if h["_job"]["ya"] == ya) for ya in ("before", "after", "both")}
    ck.cov["random_executions"] = sum(h["executions"] for h in heads if h["scenario"].startswith("mix/"))
    for t in traces:
        if t["fail"]:
            ck.hits.append(dict(what="%s: %s" % (t["scenario"], t["fail"]),
                                key=re.sub(r"\d+", "N", t["fail"])[:60],
                                replay=dict(harness="h_c16", config=t["_job"]["cfg"], scenario=t["scenario"], choices=t["choices"],
                                            params=[a for a in t["_job"]["args"] if a.startswith(("mixes=", "pseed="))],
                                            weak=("--weak" in t["_job"]["args"]) and t["_job"]["args"][t["_job"]["args"].index("--weak") + 1],
                                            pb=("--pb" in t["_job"]["args"]) and t["_job"]["args"][t["_job"]["args"].index("--pb") + 1],
                                            yield_at=t["_job"]["ya"], trace=t["trace"])))
    # ---- correspondence: replay every distinct trace through the model inside Coq
    cases, metas, seen = [], [], {}
    for t in traces:
        if t["fail"]:
            continue
        try:
            n0, wk, fk, evs, obs = to_events(t["trace"])
        except (ValueError, AttributeError, IndexError, KeyError) as e:
            ck.gen_obligation("correspondence Event (trace vocabulary)", False, "%s in %s" % (e, t["trace"]))
            continue
        term = "obs_nat %d [%s]" % (n0, "; ".join(evs))
        if term not in seen:
            seen[term] = len(cases)
            cases.append(term)
        metas.append((t, seen[term], wk, fk, obs))
    header = "From Coq Require Import List. Import ListNotations.\nFrom YV Require Import model.Event model.EventObs.\n"
    res, logs = vlib.coq_eval_cases(header, cases, "c16", shard=250) if cases else ([], [])
    # a shard is lost as a whole when one of its terms cannot be evaluated: isolate the culprits
    lost = [i for i, r in enumerate(res) if r is None]
    if lost:
        again, _ = vlib.coq_eval_cases(header, [cases[i] for i in lost[:600]], "c16r", shard=1 if len(lost) <= 40 else 15)
        for i, r in zip(lost, again):
            res[i] = r
        lost2 = [i for i in lost[:600] if res[i] is None]
        if 0 < len(lost2) <= 40 < len(lost):
            again, _ = vlib.coq_eval_cases(header, [cases[i] for i in lost2], "c16s", shard=1)
            for i, r in zip(lost2, again):
                res[i] = r
    validated, nontriv, bad = 0, set(), []
    for t, i, wk, fk, obs in metas:
        r = res[i]
        if r is None:
            bad.append((t, "model evaluation failed"))
            continue
        why = compare(decode(r), wk, fk, obs)
        if why:
            bad.append((t, why))
        else:
            validated += 1
            if nontrivial(t["trace"]):
                nontriv.add(t["scenario"] + "|" + t["trace"])
    ck.cov["traces_validated_against_impl"] = validated
    ck.cov["distinct_traces"] = len(traces)
    ck.cov["distinct_model_event_sequences"] = len(cases)
    ck.cov["distinct_nontrivial"] = len(nontriv)
    ck.cov["rule"] = ("exhaustive DFS over every scheduling decision of the FIBER backend (fiber switch offered before each wrapped atomic/"
                      "mutex/condvar operation and, in a second pass, after each one; next fiber, notified waiter; optionally spurious "
                      "weak-CAS failures; random walks offer the switch at both places) for the small programs "
                      "(one waiter of each kind registering vs the final Done / Set, a timed waiter vs two Done fibers for several "
                      "deadlines, two concurrent pushers, Attach / Consume vs the producer; one Attach / Consume call for 2-3 futures "
                      "vs their producers, preemption-bounded DFS except one exhaustive case in the thorough tier), seeded random walks for 3 workers + 3 "
                      "waiters of mixed kinds + up to 2 futures; traces are deduplicated by their sequence of operations on the head "
                      "word, the counter, the futures' words, the waiters' mutex/refcount plus harness markers; non-trivial = a "
                      "waiter's head operation falls between the count reaching zero and the all-done exchange, or two fibers' head "
                      "operations interleave, or a timed waiter acts between its Call and the event's DecRef")
    pick = lambda pred: [x for x in traces if pred(x)][:1]
    ck.cov["samples"] = [dict(scenario=t["scenario"], trace=t["trace"], choices=t["choices"], executions=t["count"])
                         for t in pick(lambda x: x["scenario"] == "wg/block_vs_done" and nontrivial(x["trace"])) +
                         pick(lambda x: x["scenario"].startswith("wg/timed") and "!tmo" in x["trace"]) +
                         pick(lambda x: x["scenario"].startswith("wg/consume_") and re.search(r"D0:!free 0", x["trace"])) +
                         pick(lambda x: x["scenario"].startswith("mix/") and nontrivial(x["trace"]))]
    for t, why in bad[:10]:
        ck.broken.append(dict(name="correspondence Event.run vs implementation on %s" % t["scenario"],
                              detail="%s\ntrace: %s\nchoices: %s" % (why, t["trace"], t["choices"])))
    if not traces:
        ck.broken.append(dict(name="correspondence Event.run vs implementation", detail="harness produced no traces"))


def replay(ck, path):
    d = json.load(open(path))
    rp = d.get("replay") or {}
    if not (rp.get("scenario") or rp.get("only")) or rp.get("choices") is None:
        print("nothing to replay: %s" % json.dumps(d)[:2000])
        return 0
    exe, b = vlib.compile_harness(rp.get("config") or "F", [HARNESS], "c16")
    args = ["--mode", "replay", "--choices", rp["choices"].strip(",")]
    args += ["--exact", rp["scenario"]] if rp.get("scenario") else ["--only", rp["only"]]
    for p in rp.get("params") or []:
        args += ["--param", p]
    if rp.get("weak"):
        args += ["--weak", str(rp["weak"])]
    if rp.get("pb"):
        args += ["--pb", str(rp["pb"])]
    args += ["--yield-at", rp.get("yield_at") or "before"]
    rows, out, err, rc = runner.run_harness(exe, args)
    print(out)
    bad = any(r.get("fail") for r in rows if "trace" in r)
    return 1 if bad or rc != 0 else 0
