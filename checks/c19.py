"""C19 — yaclib_std::atomic computes exactly what std::atomic computes.

Proof: coq/props/Properties_C19.v (+ Properties_C19_ub.v: no undefined behaviour in the plain arithmetic) about
       coq/gen/Gen_fiber_atomic.v, which tools/translate_fiber_atomic.py REGENERATES on every run from the fiber
       atomics and the wrapper of the tree under check (statement-level translation; anything outside the
       vocabulary makes the translation, and therefore the check, fail).
Tie:   translation validation by a differential harness (harness/h_c19.cpp) built against the same tree in
       configs F (FIBER), T (THREAD, -D_GLIBCXX_ASSERTIONS) and FA (FIBER + UBSan): seeded random and boundary
       operation sequences on yaclib_std::atomic<T> and std::atomic<T>; the same sequences are evaluated inside
       Coq by the generated model of each backend (and by the std contract AtomicStd.v) and must agree step by
       step (returned value, stored value, expected).
Oracle (property text only): per operation yaclib_std's (returned, stored, expected) == std::atomic's; an
       injected spurious weak failure returns false, loads expected, changes nothing; strong ignores the
       injection; no operation aborts or is undefined where std::atomic is defined."""
import concurrent.futures, json, os, random, re, subprocess, sys, tempfile
import vlib, runner

sys.path.insert(0, os.path.join(vlib.VERIF, "tools"))
import translate_fiber_atomic as tfa

HARNESS = os.path.join(vlib.VERIF, "harness", "h_c19.cpp")
# std::atomic<long double> is not lock-free: libatomic (kept although it precedes the objects on the command line)
LINK = ["-Wl,--no-as-needed", "-latomic", "-Wl,--as-needed"]
F80_CAS_IS_VIOLATION = True
SCRATCH = "/var/tmp"

INT_TYPES = {"i8": (8, True), "u8": (8, False), "i16": (16, True), "u16": (16, False),
             "i32": (32, True), "u32": (32, False), "i64": (64, True), "u64": (64, False)}
# pointer atomics: element size (the step of the arithmetic) and sizeof(std::remove_pointer_t<pointee>) (differs for
# pointers to pointers: int**, char**, Node12**)
PTR_TYPES = {"p4": 4, "p8": 8, "p1": 1, "p2": 2, "p8l": 8, "p12": 12, "p16": 16, "pp4": 8, "pp1": 8, "pp12": 8}
PTR_RP = {"pp4": 4, "pp1": 1, "pp12": 12}
PTR_FULL = ("p4", "p8")      # every base operation; the others: arithmetic + a few base operations
FLT_TYPES = {"f32": 32, "f64": 64, "f80": 80}
ALL_TYPES = ["b"] + list(INT_TYPES) + list(PTR_TYPES) + list(FLT_TYPES) + ["flag"]

BASE_OPS = ["store", "load", "conv", "xchg", "cew1", "cew2", "ces1", "ces2"]
ADDSUB = ["fadd", "fsub", "adda", "suba"]
INCDEC = ["preinc", "postinc", "predec", "postdec"]
BITS = ["fand", "for", "fxor", "anda", "ora", "xora"]
OPN = {"assign": "Assign", "store": "Store", "load": "Load", "conv": "Conv", "xchg": "Xchg", "cew1": "Cew1",
       "cew2": "Cew2", "ces1": "Ces1", "ces2": "Ces2", "fadd": "FAdd", "fsub": "FSub", "adda": "AddA", "suba": "SubA",
       "fand": "FAnd", "for": "FOr", "fxor": "FXor", "anda": "AndA", "ora": "OrA", "xora": "XorA",
       "preinc": "PreInc", "postinc": "PostInc", "predec": "PreDec", "postdec": "PostDec", "clear": "Clear", "tas": "TAS"}
CPP_NAME = {"assign": "operator=", "store": "store", "load": "load", "conv": "operator T", "xchg": "exchange",
            "cew1": "compare_exchange_weak(e,d,order)", "cew2": "compare_exchange_weak(e,d,success,failure)",
            "ces1": "compare_exchange_strong(e,d,order)", "cesload": "e = load(); while (!compare_exchange_strong(e,d)) ++failed  [returned = failed attempts, max 3]", "ces2": "compare_exchange_strong(e,d,success,failure)",
            "fadd": "fetch_add", "fsub": "fetch_sub", "adda": "operator+=", "suba": "operator-=", "fand": "fetch_and",
            "for": "fetch_or", "fxor": "fetch_xor", "anda": "operator&=", "ora": "operator|=", "xora": "operator^=",
            "preinc": "++x", "postinc": "x++", "predec": "--x", "postdec": "x--", "clear": "clear", "tas": "test_and_set",
            "fence_t": "atomic_thread_fence", "fence_s": "atomic_signal_fence"}
VOL_OK = set(["store", "load", "conv", "xchg", "cew1", "cew2", "ces1", "ces2", "clear", "tas"] + ADDSUB + BITS)
MO_NAMES = {0: "default", 1: "relaxed", 2: "consume", 3: "acquire", 4: "release", 5: "acq_rel", 6: "seq_cst"}
LOAD_MO = [0, 1, 2, 3, 6]
STORE_MO = [0, 1, 4, 6]
RMW_MO = [0, 1, 2, 3, 4, 5, 6]


def kind_of(t):
    if t == "b":
        return "KBool", "CBool"
    if t in INT_TYPES:
        w, sg = INT_TYPES[t]
        return "KInt", "(CInt %d %s)" % (w, "true" if sg else "false")
    if t in PTR_TYPES:
        return "KPtr", "(CPtr %d %d)" % (PTR_TYPES[t], PTR_RP.get(t, PTR_TYPES[t]))
    if t in FLT_TYPES:
        return "KFlt", "CFlt"
    return "KFlag", "CBool"


def ops_of(t):
    if t == "b":
        return BASE_OPS
    if t in INT_TYPES:
        return BASE_OPS + ADDSUB + INCDEC + BITS
    if t in PTR_TYPES:
        return (BASE_OPS if t in PTR_FULL else ["store", "load", "xchg", "ces1"]) + ADDSUB + INCDEC
    if t == "f80":
        # no compare_exchange on long double: its 6 padding bytes make even std::atomic<long double>'s comparison
        # depend on stack garbage (observed: the reference itself is not reproducible), see group "f80-cas"
        return ["store", "load", "conv", "xchg"] + ADDSUB
    if t in FLT_TYPES:
        return BASE_OPS + ADDSUB
    return ["clear", "tas"]


def f32(x):
    import struct
    return struct.unpack("<I", struct.pack("<f", x))[0]


def f64(x):
    import struct
    return struct.unpack("<Q", struct.pack("<d", x))[0]


FMT = {"f32": dict(p=24, emin=-126, bias=127, ebits=8), "f64": dict(p=53, emin=-1022, bias=1023, ebits=11),
       "f80": dict(p=64, emin=-16382, bias=16383, ebits=15)}     # f80: x87 extended, explicit integer bit


def fenc(t, x, neg_zero=False):
    """Bit pattern of the exactly representable rational x in format t (ValueError if it is not representable)."""
    from fractions import Fraction
    f = FMT[t]
    p, emin, bias = f["p"], f["emin"], f["bias"]
    x = Fraction(x)
    sign = 1 if (x < 0 or neg_zero) else 0
    ax = abs(x)
    if ax == 0:
        m, biased = 0, 0
    else:
        e = ax.numerator.bit_length() - ax.denominator.bit_length()
        while Fraction(2) ** e > ax:
            e -= 1
        while Fraction(2) ** (e + 1) <= ax:
            e += 1
        e = max(e, emin)
        mm = ax / Fraction(2) ** (e - (p - 1))
        if mm.denominator != 1 or mm.numerator >= (1 << p) or e > bias:
            raise ValueError("not representable")
        m = mm.numerator
        biased = e + bias if m >= (1 << (p - 1)) else 0
    if t == "f80":
        return (sign << 79) | (biased << 64) | m
    return (sign << (p - 1 + f["ebits"])) | (biased << (p - 1)) | (m & ((1 << (p - 1)) - 1))


def fdec(t, bits):
    """(kind, exact value) of a bit pattern: kind in 'num', 'inf', 'nan'."""
    from fractions import Fraction
    f = FMT[t]
    p, emin, bias, eb = f["p"], f["emin"], f["bias"], f["ebits"]
    bits = int(bits)
    if t == "f80":
        sign, biased, m = (bits >> 79) & 1, (bits >> 64) & 0x7fff, bits & ((1 << 64) - 1)
        frac_nonzero = (m & ((1 << 63) - 1)) != 0
    else:
        sign, biased, fr = (bits >> (p - 1 + eb)) & 1, (bits >> (p - 1)) & ((1 << eb) - 1), bits & ((1 << (p - 1)) - 1)
        m = fr | ((1 << (p - 1)) if biased else 0)
        frac_nonzero = fr != 0
    if biased == (1 << eb) - 1:
        return ("nan" if frac_nonzero else "inf"), (-1 if sign else 1)
    e = (biased - bias) if biased else emin
    v = Fraction(m) * Fraction(2) ** (e - (p - 1))
    return "num", (-v if sign else v), sign


def fspecials(t):
    """(+inf, -0.0, quiet NaN, a second NaN payload)."""
    if t == "f32":
        return 0x7f800000, 0x80000000, 0x7fc00000, 0x7fc00001
    if t == "f64":
        return 0x7ff0000000000000, 1 << 63, 0x7ff8000000000000, 0x7ff8000000000001
    return (0x7fff << 64) | (1 << 63), 1 << 79, (0x7fff << 64) | (3 << 62), (0x7fff << 64) | (3 << 62) | 1


def boundaries(t, full):
    if t == "b" or t == "flag":
        return [0, 1]
    if t in INT_TYPES:
        w, sg = INT_TYPES[t]
        if sg:
            lo, hi = -(1 << (w - 1)), (1 << (w - 1)) - 1
            pat = int("55" * (w // 8), 16)
            quick = [lo, -1, 0, 6, 3, hi - 1, hi]
            vals = quick + [lo + 1, 1, pat, -pat - 1]
        else:
            hi = (1 << w) - 1
            quick = [0, 1, 6, 3, hi, 1 << (w - 1), (1 << (w - 1)) - 1]
            vals = quick + [hi - 1, int("55" * (w // 8), 16), int("aa" * (w // 8), 16)]
        return vals if full else quick
    if t in PTR_TYPES:
        sz = PTR_TYPES[t]
        # byte offsets into the harness arena (64 KiB): the middle, and both ends (one-past-the-end included)
        return [32768, 32768 + sz, 32768 - sz, 32768 + 16 * sz, 0, sz, 65536 - sz, 65536 - 65536 % sz]
    if t in FLT_TYPES:
        from fractions import Fraction
        f = FMT[t]
        inf, nzero, nan, _ = fspecials(t)
        big = Fraction((1 << f["p"]) - 1) * Fraction(2) ** (f["bias"] - (f["p"] - 1))          # largest finite
        tiny = Fraction(2) ** (f["emin"] - (f["p"] - 1))                                    # smallest denormal
        return [fenc(t, 0), fenc(t, 1), fenc(t, -1), fenc(t, Fraction(1, 2)), fenc(t, big), fenc(t, tiny), inf, nzero, nan]
    return [0]


def arg_boundaries(t, op, full):
    """Operands for op on type t."""
    if t in PTR_TYPES and op in ADDSUB:
        return [0, 1, -1, 2, -3, 16]
    if op in INCDEC or op in ("load", "conv", "clear", "tas"):
        return [0]
    return boundaries(t, full)


def is_float_special(t, v):
    """NaN or negative zero (where == and the object representation disagree)."""
    if t in FLT_TYPES:
        return v == fspecials(t)[1] or fdec(t, v)[0] == "nan"
    return False


class Gen:
    def __init__(self, seed, tier):
        self.rnd = random.Random(seed)
        self.tier = tier
        self.cases = []
        self.next_id = 1

    def add(self, group, t, init, ops):
        c = dict(id=self.next_id, group=group, type=t, init=init, ops=ops)
        self.next_id += 1
        self.cases.append(c)
        return c

    def rand_value(self, t):
        r = self.rnd
        b = boundaries(t, True)
        if t in INT_TYPES and r.random() < 0.5:
            w, sg = INT_TYPES[t]
            return r.randrange(-(1 << (w - 1)), 1 << (w - 1)) if sg else r.randrange(0, 1 << w)
        if t in PTR_TYPES:
            return 32768 + PTR_TYPES[t] * r.randrange(-8, 9)
        if t in FLT_TYPES:
            # finite values in the random sequences, both zeros included (NaN / inf have their own group: arithmetic on
            # them is compared there)
            return r.choice([x for x in b if not is_float_special(t, x)][:4] + [fenc(t, 2), fspecials(t)[1]])
        return r.choice(b)

    def rand_arg(self, t, op):
        if t in PTR_TYPES and op in ADDSUB:
            return self.rnd.randrange(-4, 5)
        if op in INCDEC or op in ("load", "conv", "clear", "tas"):
            return 0
        return self.rand_value(t)

    def mo_for(self, op, spur):
        r = self.rnd
        if r.random() < 0.5:
            return 0
        if op in ("load",):
            return r.choice(LOAD_MO)
        if op in ("store", "clear"):
            return r.choice(STORE_MO)
        if op in ("conv", "assign") or op in INCDEC or op in ("adda", "suba", "anda", "ora", "xora"):
            return 0
        if op in ("cew2", "ces2"):
            return r.choice([1, 2, 3, 4, 5, 6]) + 8 * r.choice([1, 2, 3, 6])
        if op == "cew1" and spur:
            return r.choice([0, 1, 2, 3, 6])     # release / acq_rel with an injected failure: group "orders"
        return r.choice(RMW_MO)

    @staticmethod
    def ptr_in_arena(t, op, v, a):
        """Pointer arithmetic of the cases stays inside the arena [0, 64 KiB] (one past the end allowed)."""
        if t not in PTR_TYPES:
            return True
        sz = PTR_TYPES[t]
        if op in ("fadd", "adda"):
            r = v + a * sz
        elif op in ("fsub", "suba"):
            r = v - a * sz
        elif op in ("preinc", "postinc"):
            r = v + sz
        elif op in ("predec", "postdec"):
            r = v - sz
        else:
            r = v
        return 0 <= r <= 65536

    def boundary_cases(self):
        full = self.tier == "thorough"
        for t in ALL_TYPES:
            if t == "flag":
                for init in (0, 1):
                    for vol in (0, 1):
                        self.add("boundary", t, init, [("tas", vol, 0, 0, 0, 0), ("tas", vol, 0, 0, 0, 0), ("clear", vol, 0, 0, 0, 0),
                                                       ("fence_t", 0, 0, 6, 0, 0), ("tas", vol, 0, 0, 0, 0), ("clear", vol, 0, 0, 0, 0),
                                                       ("clear", vol, 0, 0, 0, 0), ("tas", 0, 0, 0, 0, 0)])
                continue
            vs = [v for v in boundaries(t, full) if not is_float_special(t, v)]
            for op in ops_of(t):
                args = [a for a in arg_boundaries(t, op, full) if not is_float_special(t, a)]
                for vol in ((0, 1) if op in VOL_OK else (0,)):
                    for spur in ((0, 1) if op.startswith("ce") else (0,)):
                        ops = []
                        for v in vs:
                            for a in args:
                                if not self.ptr_in_arena(t, op, v, a):
                                    continue
                                ops.append(("store", 0, 0, 0, v, 0))
                                if op.startswith("ce"):
                                    # expected = a (equal to the stored value when a == v), desired = another value
                                    d = vs[(vs.index(v) + 1) % len(vs)]
                                    ops.append((op, vol, spur, 0 if op[-1] == "1" else 6 + 8 * 6, a, d))
                                else:
                                    ops.append((op, vol, spur, 0, a, 0))
                        self.add("boundary", t, vs[0], ops)

    def float_special_cases(self):
        """compare_exchange (all four forms, both cv-overloads, with and without the injected spurious failure),
        exchange and arithmetic where == and the object representation disagree: stored/expected drawn from
        +0.0, -0.0, two NaN payloads (so also NaN vs the same NaN) and an ordinary value.  std::atomic compares and
        reloads BITS: a failed (also a spuriously failed) compare leaves expected bitwise equal to the stored value."""
        for t in FLT_TYPES:
            vs = boundaries(t, True)
            nan_b = fspecials(t)[3]                                          # a second NaN payload
            sp = [v for v in vs if is_float_special(t, v)] + [nan_b]
            pool = sp + [vs[0], vs[1]]                                        # -0.0, NaN A, NaN B, +0.0, 1.0
            for v in pool:
                for e in pool:
                    for op in ("cew1", "cew2", "ces1", "ces2"):
                        mo = 0 if op[-1] == "1" else 6 + 8 * 6
                        for spur in (0, 1):
                            for vol in (0, 1):
                                if t != "f80":      # long double: see cas_load_cases
                                    self.add("float-special", t, v, [(op, vol, spur, mo, e, vs[2]), ("load", 0, 0, 0, 0, 0)])
            for v in sp:
                self.add("float-special", t, vs[1], [("xchg", 0, 0, 0, v, 0), ("fadd", 0, 0, 0, vs[1], 0), ("load", 0, 0, 0, 0, 0)])

    def cas_load_cases(self):
        """The CAS-loop idiom on every floating type: expected = load() (padding bytes poisoned by the harness), strong
        compare_exchange must succeed.  float/double belong to the oracle; long double is group "f80-cas"."""
        for t in FLT_TYPES:
            vs = [v for v in boundaries(t, True)]
            ops = []
            for v in vs:
                ops.append(("store", 0, 0, 0, v, 0))
                ops.append(("cesload", 0, 0, 0, 0, vs[1]))
                ops.append(("load", 0, 0, 0, 0, 0))
            self.add("f80-cas" if t == "f80" else "float-special", t, vs[0], ops)

    def rounding_cases(self):
        """Floating fetch_add / fetch_sub / += / -= where the result depends on ONE correct rounding in T:
        y just above / below / exactly at half an ulp of x (y = ulp(x)/2 * (1 +- 2^-k), k up to and beyond the width of
        the wider formats, so that an intermediate in extended or double precision rounds twice), on x of different
        shapes (powers of two, all-ones significand, 2^(p-1), values whose half-ulp is denormal), and a seeded sweep of
        random significands with exponent differences around the significand width."""
        from fractions import Fraction as F
        r = self.rnd
        ops4 = ("fadd", "fsub", "adda", "suba")
        for t in FLT_TYPES:
            f = FMT[t]
            p, emin = f["p"], f["emin"]
            xs = [F(1), F(-1), F((1 << p) - 1, 1 << (p - 1)), F(2) ** (p - 1), F(3, 2), F(2) ** (emin + p + 2),
                  F(2) ** (emin + p - 3) * 3, F((1 << p) - 1) * F(2) ** (emin + 5), F(2) ** 100 if t != "f32" else F(2) ** 60]
            ks = [1, 2, 3, 5, 8, 10, 11, 12, 13, 16, 20, 23, 24, 28, 29, 30, 31, 32, 40, 48, 52, 53, 60, 63, 64]
            for x in xs:
                ax = abs(x)
                e = ax.numerator.bit_length() - ax.denominator.bit_length()
                while F(2) ** e > ax:
                    e -= 1
                while F(2) ** (e + 1) <= ax:
                    e += 1
                half = F(2) ** (max(e, emin) - (p - 1)) / 2
                ys = [half, half * 3, half / 2, half * 2]                  # exact tie (both parities), quarter, full ulp
                for k in ks:
                    ys += [half * (1 + F(1, 1 << k)), half * (1 - F(1, 1 << k)), half * (3 + F(1, 1 << k)), half * (3 - F(1, 1 << k))]
                ops = []
                try:
                    xb = fenc(t, x)
                except ValueError:
                    continue
                for y in ys:
                    for sy in (1, -1):
                        try:
                            yb = fenc(t, sy * y)
                        except ValueError:
                            continue
                        for op in ops4:
                            ops.append(("store", 0, 0, 0, xb, 0))
                            ops.append((op, 0, 0, 0, yb, 0))
                # split into moderate sequences
                for i in range(0, len(ops), 200):
                    self.add("float-rounding", t, xb, ops[i:i + 200])
            # seeded sweep: random significands, exponent difference around the significand width
            lo, hi = {"f32": (18, 30), "f64": (40, 70), "f80": (55, 80)}[t]
            n = 400 if self.tier == "quick" else 4000
            ops = []
            for _ in range(n):
                mx = r.getrandbits(p) | (1 << (p - 1))
                my = r.getrandbits(p) | (1 << (p - 1))
                if r.random() < 0.3:
                    my = (1 << (p - 1)) | (r.getrandbits(p) & ((1 << r.randrange(1, 12)) - 1))       # sparse low bits: near ties
                ex = r.randrange(-6, 7)
                d = r.randrange(lo, hi + 1)
                x = F(mx) * F(2) ** (ex - (p - 1)) * r.choice((1, -1))
                y = F(my) * F(2) ** (ex - d - (p - 1)) * r.choice((1, -1))
                ops.append(("store", 0, 0, 0, fenc(t, x), 0))
                ops.append((r.choice(ops4), r.randrange(2), 0, 0, fenc(t, y), 0))
            for i in range(0, len(ops), 200):
                self.add("float-rounding", t, fenc(t, 1), ops[i:i + 200])

    def random_cases(self):
        n_seq, length = (12, 30) if self.tier == "quick" else (120, 50)
        r = self.rnd
        for t in ALL_TYPES:
            for _ in range(n_seq):
                if t == "flag":
                    ops = []
                    for _ in range(length):
                        op = r.choice(["clear", "tas", "tas", "fence_t", "fence_s"])
                        ops.append((op, r.randrange(2) if op in VOL_OK else 0, 0,
                                    (r.choice(STORE_MO) if op == "clear" else r.choice(RMW_MO)) or (6 if op.startswith("fence") else 0), 0, 0))
                    ops.append(("tas", 0, 0, 0, 0, 0))
                    self.add("random", t, r.randrange(2), ops)
                    continue
                ops = []
                names = ops_of(t) + ["fence_t", "fence_s"]
                while len(ops) < length:
                    op = r.choice(names)
                    if op.startswith("fence"):
                        ops.append((op, 0, 0, r.choice([1, 3, 4, 5, 6]), 0, 0))
                        continue
                    vol = r.randrange(2) if op in VOL_OK else 0
                    if op.startswith("ce"):
                        spur = 1 if r.random() < 0.3 else 0
                        d = self.rand_value(t)
                        if r.random() < 0.5:
                            x = self.rand_value(t)
                            ops.append(("store", 0, 0, 0, x, 0))     # make the comparison succeed
                            ops.append((op, vol, spur, self.mo_for(op, spur), x, d))
                        else:
                            ops.append((op, vol, spur, self.mo_for(op, spur), self.rand_value(t), d))
                    else:
                        ops.append((op, vol, 0, self.mo_for(op, 0), self.rand_arg(t, op), 0))
                self.add("random", t, self.rand_value(t), ops)

    def order_cases(self):
        """Every operation with every memory order std::atomic accepts for it (one call per case)."""
        for t in ("i32", "p4", "b", "f64"):
            v = boundaries(t, False)[1]
            w = boundaries(t, False)[0]
            for op in ops_of(t):
                if op in ("conv",) or op in INCDEC or op in ("adda", "suba", "anda", "ora", "xora"):
                    continue
                if op == "load":
                    mos = LOAD_MO
                elif op == "store":
                    mos = STORE_MO
                elif op in ("cew2", "ces2"):
                    mos = [s + 8 * f for s in (1, 2, 3, 4, 5, 6) for f in (1, 2, 3, 6)]
                else:
                    mos = RMW_MO
                for mo in mos:
                    for spur in ((0, 1) if op.startswith("ce") else (0,)):
                        for exp in ((v, w) if op.startswith("ce") else (w,)):
                            self.add("orders", t, v, [(op, 0, spur, mo, exp if op.startswith("ce") else (1 if t == "p4" else w), w),
                                                      ("load", 0, 0, 0, 0, 0)])
        for mo in STORE_MO:
            self.add("orders", "flag", 1, [("clear", 0, 0, mo, 0, 0), ("tas", 0, 0, 0, 0, 0)])
        for mo in RMW_MO:
            self.add("orders", "flag", 0, [("tas", 0, 0, mo, 0, 0), ("tas", 0, 0, 0, 0, 0)])

    def assign_cases(self):
        for t in ("b", "i32", "u8", "p4", "f64"):
            vs = [v for v in boundaries(t, False) if not is_float_special(t, v)][:4]
            self.add("assign", t, vs[0], [("assign", 0, 0, 0, v, 0) for v in vs] + [("load", 0, 0, 0, 0, 0)])

    def ub_cases(self):
        """Single arithmetic operations whose mathematical result leaves the range of T."""
        for t, (w, sg) in INT_TYPES.items():
            lo, hi = (-(1 << (w - 1)), (1 << (w - 1)) - 1) if sg else (0, (1 << w) - 1)
            for op in ADDSUB + INCDEC:
                up = op in ("fadd", "adda", "preinc", "postinc")
                for (v, a) in ((hi, 1), (hi - 5, 100 if w > 8 else 20)) if up else ((lo, 1), (lo + 5, 100 if w > 8 else 20)):
                    if op in INCDEC:
                        if a != 1:
                            continue
                        a = 0
                    self.add("ub", t, v, [(op, 0, 0, 0, a, 0)])
            # downwards through addition of a negative number / upwards through subtraction
            if sg:
                self.add("ub", t, lo, [("fadd", 0, 0, 0, -1, 0)])
                self.add("ub", t, hi, [("fsub", 0, 0, 0, -1, 0)])
                self.add("ub", t, lo, [("fsub", 0, 0, 0, lo, 0)])     # lo - lo = 0: no overflow
                self.add("ub", t, hi, [("fadd", 0, 0, 0, lo, 0)])     # hi + lo = -1: no overflow


def case_line(c):
    parts = [str(c["id"]), c["type"], str(c["init"]), str(len(c["ops"]))]
    for (op, vol, spur, mo, a1, a2) in c["ops"]:
        parts += [op, str(vol), str(spur), str(mo), str(a1), str(a2)]
    return " ".join(parts)


def run_cases(exe, cases, tag, env=None, max_crashes=12):
    """Run the harness over `cases`; a crash loses only the crashing case (the rest is re-run).
    Returns (results by id, crashes [(case, op index, signal, stderr tail)])."""
    results, crashes = {}, []
    todo = list(cases)
    while todo and len(crashes) <= max_crashes:
        fd, path = tempfile.mkstemp(prefix="c19.%s." % tag, suffix=".cases", dir=SCRATCH)
        with os.fdopen(fd, "w") as f:
            for c in todo:
                f.write(case_line(c) + "\n")
        rows, out, err, rc = runner.run_harness(exe, [path], timeout=900, env=env)
        os.remove(path)
        crashed = None
        for r in rows:
            if "crash" in r:
                crashed = r
            elif "id" in r:
                results[r["id"]] = r
        if rc == 0 and crashed is None:
            break
        done = set(results)
        if crashed is not None:
            cid = crashed["id"]
        else:
            # killed without our handler (sanitizer exit): the first case without a result
            rest = [c for c in todo if c["id"] not in done]
            cid = rest[0]["id"] if rest else -1
        cc = next((c for c in todo if c["id"] == cid), None)
        if cc is None:
            crashes.append((None, -1, rc, (err or out)[-1500:]))
            break
        crashes.append((cc, crashed["op"] if crashed else -1, crashed["crash"] if crashed else rc, (err or "")[-1500:]))
        todo = [c for c in todo if c["id"] not in done and c["id"] != cid]
    return results, crashes


def as_int(s):
    return int(s)


def fshow(t, bits):
    """Bit pattern of a floating value as text: 0x80000000 (-0x0p+0), exact hex-float."""
    try:
        d = fdec(t, bits)
        if d[0] != "num":
            txt = ("-" if d[1] < 0 else "") + d[0]
        elif d[1] == 0:
            txt = "-0.0" if d[2] else "0.0"
        else:
            v = abs(d[1])
            e = v.numerator.bit_length() - v.denominator.bit_length()
            while 2 ** e > v:
                e -= 1
            while 2 ** (e + 1) <= v:
                e += 1
            fr = v / (2 ** e if e >= 0 else 1) * (1 if e >= 0 else 2 ** (-e)) - 1     # in [0, 1)
            digits = ""
            while fr != 0 and len(digits) < 20:
                fr *= 16
                digits += "%x" % int(fr)
                fr -= int(fr)
            txt = "%s0x1%s%sp%+d" % ("-" if d[2] else "", "." if digits else "", digits, e)
        return "%#x (%s)" % (int(bits), txt)
    except Exception:
        return str(bits)


TYPE_CPP = {"b": "bool", "i8": "int8_t", "u8": "uint8_t", "i16": "int16_t", "u16": "uint16_t", "i32": "int32_t", "u32": "uint32_t",
            "i64": "int64_t", "u64": "uint64_t", "f32": "float", "f64": "double", "f80": "long double", "p1": "char*", "p2": "short*",
            "p4": "int*", "p8": "double*", "p8l": "long*", "p12": "Node12*", "p16": "long double*", "pp4": "int**", "pp1": "char**",
            "pp12": "Node12**"}


def describe(c, i, cfg, stored_before, got, want):
    op, vol, spur, mo, a1, a2 = c["ops"][i]
    if c["type"] in PTR_TYPES:
        stored_before = "arena+%s" % stored_before
    if c["type"] in FLT_TYPES:
        t = c["type"]
        cas = op.startswith("ce")
        sh = lambda v, is_val=True: fshow(t, v) if is_val else str(v)
        stored_before, a1, a2 = sh(stored_before), sh(a1, op not in INCDEC), sh(a2, cas)
        got = [sh(got[0], not cas), sh(got[1]), sh(got[2], cas)]
        want = [sh(want[0], not cas), sh(want[1]), sh(want[2], cas)]
    return ("[%s] yaclib_std::atomic<%s> holding %s: %s%s%s%s(args %s %s) -> returned %s, stored %s, expected %s; "
            "std::atomic: returned %s, stored %s, expected %s" % (
                cfg, TYPE_CPP.get(c["type"], c["type"]), stored_before, CPP_NAME.get(op, op), " volatile" if vol else "",
                " [injected spurious failure]" if spur else "", " order=%s" % MO_NAMES.get(mo % 8, mo) if mo else "",
                a1, a2, got[0], got[1], got[2], want[0], want[1], want[2]))


def minimal_case(c, i, stored_before):
    return dict(id=1, group="replay", type=c["type"], init=stored_before, ops=[c["ops"][i]])


def oracle(cases, results, cfg):
    """yaclib_std vs std::atomic, step by step.  Returns (hits, number of steps compared, notes)."""
    hits, steps, notes = [], 0, []
    for c in cases:
        r = results.get(c["id"])
        if r is None:
            continue
        if r.get("err"):
            if "assign" in r["err"] and "yaclib_std" in r["err"]:
                notes.append("[%s] yaclib_std::atomic<%s>::operator=(T) is not usable (hidden by the implicitly declared "
                             "copy assignment of the derived class; std::atomic<T> has it)" % (cfg, c["type"]))
                continue
            hits.append(dict(what="[%s] %s (case %s)" % (cfg, r["err"], case_line(c)), key="%s:missing-op" % cfg,
                             replay=dict(harness="h_c19", config=cfg, case=case_line(c))))
            continue
        before_y = before_s = str(c["init"])
        per_case = 0
        for i, row in enumerate(r["ops"]):
            steps += 1
            got, want = row[0:3], row[3:6]
            if c["type"] == "flag":
                got, want = [row[0], row[1], "0"], [row[3], row[4], "0"]
            # a step is a witness on its own when both objects held the same value before it
            if got != want and before_y == before_s and per_case < 64:
                per_case += 1
                before = before_s
                op = c["ops"][i][0]
                grp = {"float-special": "float-cas", "float-rounding": "float-rounding"}.get(c["group"], op)
                vals = [int(before), int(c["ops"][i][4])] if c["type"] not in FLT_TYPES else [1 << 70]
                hits.append(dict(score=(c["type"] != "i32", any(x < 0 for x in vals), any(x == 0 for x in vals) and op not in INCDEC,
                                        sum(abs(x) for x in vals)),
                                 what=describe(c, i, cfg, before, got, want),
                                 key="%s:%s:%s" % (cfg, "ptr" if c["type"] in PTR_TYPES else "flt" if c["type"] in FLT_TYPES else "val", grp),
                                 replay=dict(harness="h_c19", config=cfg, case=case_line(minimal_case(c, i, before)),
                                             from_case=case_line(c) if len(c["ops"]) <= 8 else "(case %d of group %s, step %d)" % (c["id"], c["group"], i))))
            before_y, before_s = got[1], want[1]
    return hits, steps, notes


def z(x):
    """A Z term: two 32-bit halves as primitive integers (fast to parse), signed reading for negative numbers."""
    x = int(x)
    if x == 0:
        return "0%Z"
    u = x % (1 << 64)
    return "(%s %d %d)" % ("zs" if x < 0 else "zu", u >> 32, u & 0xffffffff)


def coq_term(c, backend, strict=False, force_nonvol_cas=False):
    k, T = kind_of(c["type"])
    calls = []
    for (op, vol, spur, mo, a1, a2) in c["ops"]:
        if op == "fence_t":
            calls.append("Fence false")
        elif op == "fence_s":
            calls.append("Fence true")
        else:
            if force_nonvol_cas and op.startswith("ce"):
                vol = 0
            calls.append("Call %s %s %s %s %s" % (OPN[op], "true" if vol else "false", "true" if spur else "false", z(a1), z(a2)))
    return "obs_nat %s %s %s %s [%s] %s" % (backend, k, T, "true" if strict else "false", "; ".join(calls), z(c["init"]))


def coq_chk_term(c, backend, r, side, force_nonvol_cas=False):
    """chk_nat term: the model run compared, inside Coq, with the observed (returned, stored, expected) columns."""
    t = coq_term(c, backend, force_nonvol_cas=force_nonvol_cas)
    assert t.startswith("obs_nat ")
    # the model's triples are (stored, returned, expected)
    obs = "; ".join("(%s, %s, %s)" % (z(u64(row[side + 1])), z(u64(row[side])), z(u64(row[side + 2]))) for row in r["ops"])
    return "chk_nat " + t[len("obs_nat "):] + " [%s]" % obs


def explain_chk(c, nums, r, side):
    if not nums:
        return None
    i, reason = nums[0] - 1, nums[1] if len(nums) > 1 else 0
    if reason == 2:
        return "model undefined at step %d (%s)" % (i, c["ops"][i][0] if i < len(c["ops"]) else "?")
    if reason == 3 or i >= len(r["ops"]):
        return "model run and implementation run differ in length at step %d" % i
    pred = decode(nums[2:])
    row = r["ops"][i]
    op = c["ops"][i]
    return "step %d %s%s%s args %s %s: model (ret, stored, expected) = %s, implementation %s" % (
        i, op[0], " volatile" if op[1] else "", " spurious" if op[2] else "", op[4], op[5], pred[0] if pred else "?",
        (u64(row[side]), u64(row[side + 1]), u64(row[side + 2])))


def decode(nums):
    """obs_nat output -> list of (ret, stored, expected) as unsigned 64-bit numbers; None where undefined."""
    out, i = [], 0
    while i < len(nums):
        if nums[i] == 0:
            out.append(None)
            break
        vals = []
        for k in range(3):
            b = nums[i + 1 + 8 * k:i + 9 + 8 * k]
            vals.append(sum(x << (8 * j) for j, x in enumerate(b)))
        out.append(tuple(vals))
        i += 25
    return out


def u64(s):
    return int(s) % (1 << 64)


def compare_model(c, pred, r, side):
    """pred: decoded model run; r: harness result; side 0 = yaclib_std columns, 3 = std columns.  None if equal."""
    rows = r["ops"]
    if len(pred) != len(rows):
        return "model run has %d steps (undefined at step %d), implementation %d" % (len(pred), len(pred) - 1, len(rows))
    for i, (p, row) in enumerate(zip(pred, rows)):
        if p is None:
            return "model undefined at step %d" % i
        op = c["ops"][i][0]
        ret, st, ex = u64(row[side]), u64(row[side + 1]), u64(row[side + 2])
        if c["type"] in INT_TYPES or c["type"] == "b" or c["type"] in PTR_TYPES or c["type"] == "flag":
            if op.startswith("fence"):
                want = (p[1],)
                have = (st,)
            elif op.startswith("ce"):
                want, have = p, (ret, st, ex)
            else:
                want, have = p[:2], (ret, st)
            if tuple(want) != tuple(have):
                return "step %d %s%s args %s %s: model (ret, stored%s) = %s, implementation %s" % (
                    i, op, " volatile" if c["ops"][i][1] else "", c["ops"][i][4], c["ops"][i][5],
                    ", expected" if op.startswith("ce") else "", tuple(want), tuple(have))
    return None


HEADER = ("From Coq Require Import ZArith List Uint63.\nImport ListNotations.\nOpen Scope uint63_scope.\n"
          "From YV Require Import model.AtomicCSem model.AtomicStd model.AtomicObs.\n")


def main(ck):
    ck.assumptions = [
        "single thread: the injection points (InjectFault) are modelled as no-ops; the kYield hook answers 'no' so no fiber switch happens in the harness",
        "integer model: two's complement, widths 8/16/32/64, int = 32 bit, ptrdiff_t = 64 bit (the x86-64 g++ ABI the checks build with)",
        "floating operations are uninterpreted in Coq (shape only); float sequences are compared with std::atomic by the harness only",
        "ShouldFailAtomicWeak() is modelled as the boolean choice it returns (set through the YACLIB_VERIF kWeakFail hook)",
        "volatile ++/-- of the wrapper and the FIBER volatile compare_exchange do not compile, so they are translated and proved but cannot be executed",
        "operator=(T) is hidden by the implicit copy assignment of the derived classes; the translated operator= bodies are proved, the harness exercises `x = v` as C++ resolves it (FIBER only)",
    ]
    ck.cov["trusted_base"] = [
        "Coq 8.16.1 kernel + vm_compute (evaluation of the generated model on the harness sequences)",
        "coq/model/AtomicCSem.v: meaning of the statement vocabulary (promotion, usual arithmetic conversions, conversion on assignment, signed overflow = undefined when strict)",
        "coq/model/AtomicStd.v: the std::atomic contract as written from the standard (validated against libstdc++ by the same harness runs)",
        "tools/translate_fiber_atomic.py (validated on every run: generated model vs the compiled code on the same sequences)",
        "harness/h_c19.cpp and the YACLIB_VERIF choose hook; g++ 12 / libstdc++ std::atomic as the reference; UBSan for undefinedness",
    ]
    import time
    tm, t_last = {}, [time.time()]

    def lap(name):
        now = time.time()
        tm[name] = round(now - t_last[0], 1)
        t_last[0] = now
    # ---------------------------------------------------------------- translation
    gen_ok = True
    try:
        path, text = tfa.generate()
        ck.cov["generated"] = dict(file="coq/gen/Gen_fiber_atomic.v", definitions=text.count("\nDefinition "),
                                   from_tree=vlib.REPO)
    except tfa.Untranslatable as e:
        gen_ok = False
        ck.cov["obligations"] += 1
        ck.broken.append(dict(name="translation of the fiber atomics / wrapper into Gen_fiber_atomic.v (statement outside the vocabulary)",
                              detail=str(e)))
    except Exception as e:
        gen_ok = False
        ck.cov["obligations"] += 1
        ck.broken.append(dict(name="translation of the fiber atomics / wrapper into Gen_fiber_atomic.v", detail=repr(e)))
    # ---------------------------------------------------------------- proofs
    proofs_ok = False
    if gen_ok:
        n0 = len(ck.broken)
        proofs_ok = ck.prove("props/Properties_C19.v", ["model/AtomicObs.vo"])
        pa = dict(ck.cov.get("print_assumptions", {}))
        n1 = len(ck.broken)
        ub_ok = ck.prove("props/Properties_C19_ub.v", [])
        for b in ck.broken[n1:]:
            b["key"] = "fiber-signed-overflow-ub"
        pb = ck.cov.get("print_assumptions", {})
        ck.cov["print_assumptions"] = dict(closed=pa.get("closed", 0) + pb.get("closed", 0),
                                           axioms=sorted(set(pa.get("axioms", []) + pb.get("axioms", []))))
        ck.cov["checker_cmd"] = ("cd /verif && python3 tools/translate_fiber_atomic.py && cd coq && coq_makefile -f _CoqProject -o Makefile && "
                                 "make -k props/Properties_C19.vo props/Properties_C19_ub.vo  (coqc 8.16.1; Print Assumptions after every theorem)")
    lap("translate+prove")
    # ---------------------------------------------------------------- implementation side
    g = Gen(ck.seed, ck.tier)
    g.boundary_cases()
    g.random_cases()
    g.order_cases()
    g.assign_cases()
    g.float_special_cases()
    g.rounding_cases()
    g.cas_load_cases()
    g.ub_cases()
    cases = g.cases
    by_group = {}
    for c in cases:
        by_group.setdefault(c["group"], []).append(c)
    main_cases = [c for c in cases if c["group"] in ("boundary", "random", "orders", "assign", "float-special", "float-rounding")]
    exeF, bF = vlib.compile_harness("F", [HARNESS], "c19", extra=LINK)
    exeT, bT = vlib.compile_harness("T", [HARNESS], "c19", extra=["-D_GLIBCXX_ASSERTIONS"] + LINK)
    exeA, bA = vlib.compile_harness("FA", [HARNESS], "c19", extra=LINK)
    lap("build")
    res, crashes = {}, {}
    with concurrent.futures.ThreadPoolExecutor(max_workers=4) as ex:
        fF = ex.submit(run_cases, exeF, main_cases, "F")
        fT = ex.submit(run_cases, exeT, main_cases, "T")
        sF = ex.submit(runner.run_harness, exeF, ["--sweep8"], 900)
        sT = ex.submit(runner.run_harness, exeT, ["--sweep8"], 900)
        res["F"], crashes["F"] = fF.result()
        res["T"], crashes["T"] = fT.result()
        sweeps = {"F": sF.result(), "T": sT.result()}
    total_steps = 0
    # ---- exhaustive sweep of the 8-bit types (oracle only): every operation x stored value x argument
    sweep_checked, sweep_rows = 0, 0
    for cfg in ("F", "T"):
        rows, out, err, rc = sweeps[cfg]
        srows = [r for r in rows if "sweep" in r]
        sweep_rows += len(srows)
        for r in srows:
            sweep_checked += r["checked"]
            if r["mismatches"]:
                ck.hits.append(dict(score=(True, False, False, 0),
                                    what="[%s] exhaustive 8-bit sweep: yaclib_std::atomic<%s> %s%s differs from std::atomic on %d of %d (stored, argument) combinations; first: %s" % (
                                        cfg, r["sweep"], CPP_NAME.get(r["op"], r["op"]), " volatile" if r["vol"] else "", r["mismatches"], r["checked"], r["first"]),
                                    key="%s:val:%s" % (cfg, r["op"]),
                                    replay=dict(harness="h_c19", config=cfg, case=r["first"])))
        if rc != 0 or len(srows) != 80:
            ck.broken.append(dict(name="exhaustive 8-bit sweep (%s) did not complete" % cfg, detail=(err or out)[-1500:]))
    notes = []
    for cfg in ("F", "T"):
        hits, steps, nts = oracle(main_cases, res[cfg], cfg)
        total_steps += steps
        ck.hits += hits
        notes += nts
        for (cc, opi, sig, tail) in crashes[cfg]:
            if cc is None:
                ck.broken.append(dict(name="harness h_c19 (%s) died outside a case" % cfg, detail=tail))
                continue
            op = cc["ops"][opi] if 0 <= opi < len(cc["ops"]) else None
            if op is not None and len(cc["ops"]) > 2:
                # the abort depends on the call, not on the history: try the single call as the replay
                mc = dict(id=1, group="replay", type=cc["type"], init=cc["init"], ops=[op])
                r2, cr2 = run_cases(exeF if cfg == "F" else exeT, [mc], cfg + "min", max_crashes=0)
                if cr2 and cr2[0][0] is not None:
                    cc, opi, tail = mc, 0, cr2[0][3] or tail
            m = re.search(r"Assertion '([^']*)' failed", tail)
            what = "[%s] yaclib_std::atomic<%s>: %s aborts (signal %s%s) where std::atomic is defined; case: %s" % (
                cfg, cc["type"],
                ("%s%s order=%s" % (CPP_NAME.get(op[0], op[0]), " [injected spurious failure]" if op[2] else "", MO_NAMES.get(op[3] % 8))) if op else "?",
                sig, (", libstdc++ assertion '%s'" % m.group(1)) if m else "", case_line(cc))
            key = "%s:abort:%s" % (cfg, op[0] if op else "?")
            ck.hits.append(dict(what=what, key=key, replay=dict(harness="h_c19", config=cfg, case=case_line(cc), extra=tail[-600:])))
    # ---- long double: the CAS-loop idiom with poisoned padding (deterministic).  A disagreement is a genuine defect of
    # the FIBER CompareExchangeHelper (it compares sizeof(T) bytes, padding included).  It is reported as a NOTE until
    # the lead decides (fix c19-8 / known finding): set F80_CAS_IS_VIOLATION to make it a hit.
    f80 = by_group.get("f80-cas", [])
    for cfg, exe in (("F", exeF), ("T", exeT)):
        if not f80:
            break
        r80, cr80 = run_cases(exe, f80, cfg + "f80")
        h80, st80, _ = oracle(f80, r80, cfg)
        total_steps += st80
        for h in h80:
            h["key"] = "%s:flt:f80-cas-padding" % cfg
        if F80_CAS_IS_VIOLATION:
            ck.hits += h80
        elif h80:
            notes.append("[%s] yaclib_std::atomic<long double>: the loop `e = x.load(); while (!x.compare_exchange_strong(e, d))` needs more "
                         "attempts than with std::atomic<long double> on %d of %d values when the padding bytes of `e` differ from the stored "
                         "object's (capped at 3 here: it never succeeds): fiber CompareExchangeHelper compares sizeof(T) = 16 bytes with memcmp "
                         "but `expected = _value` copies only the 10 value bytes, so a CAS loop on atomic<long double> can spin forever in the "
                         "FIBER backend; replay: %s" % (cfg, len(h80), sum(1 for c in f80 for o in c["ops"] if o[0] == "cesload"),
                                                                        h80[0]["replay"]["case"]))
    for n in sorted(set(notes)):
        ck.notes.append(n)
    lap("run F,T + oracle")
    # ---- undefined behaviour of the plain arithmetic (FIBER + UBSan), one process per case
    ub = by_group.get("ub", [])
    env = dict(UBSAN_OPTIONS="halt_on_error=1:exitcode=72:print_stacktrace=0", ASAN_OPTIONS="detect_leaks=0:exitcode=71")

    def one(c):
        r, cr = run_cases(exeA, [c], "A%d" % c["id"], env=env, max_crashes=0)
        return c, r.get(c["id"]), cr
    ub_obs = {}
    with concurrent.futures.ThreadPoolExecutor(max_workers=vlib.NPROC) as ex:
        for c, r, cr in ex.map(one, ub):
            tail = cr[0][3] if cr else ""
            ub_obs[c["id"]] = (r, tail)
            total_steps += 1
            if cr:
                m = re.search(r"([\w./-]+\.hpp:\d+):\d+: runtime error: ([^\n]*)", tail)
                op = c["ops"][0]
                ck.hits.append(dict(
                    what="[FA] yaclib_std::atomic<%s> holding %s: %s(%s) is undefined behaviour in the FIBER backend (%s) where std::atomic wraps around" % (
                        c["type"], c["init"], CPP_NAME[op[0]], op[4], ("%s at %s" % (m.group(2), m.group(1))) if m else tail[-200:]),
                    key="fiber-signed-overflow-ub",
                    replay=dict(harness="h_c19", config="FA", case=case_line(c), env=env)))
    # report the most readable witness first (int, small non-negative operands)
    ck.hits.sort(key=lambda h: h.get("score", (True, True, True, 1 << 80)))
    # one witness per defect family first (runner prints the first few)
    first, rest, seen_keys = [], [], set()
    family = lambda h: re.sub(r":(pre|post)(inc|dec)$", ":incdec", h["key"])
    for h in ck.hits:
        (rest if family(h) in seen_keys else first).append(h)
        seen_keys.add(family(h))
    ck.hits[:] = first + rest
    lap("run FA")
    # ---------------------------------------------------------------- correspondence with the generated model
    validated = 0
    if gen_ok:
        ok, log = vlib.coq_make(["model/AtomicObs.vo"])
        if not ok:
            ck.broken.append(dict(name="generated model Gen_fiber_atomic.v / AtomicObs.v does not compile", detail=log[-3000:]))
        else:
            coq_cases = [c for c in main_cases if c["type"] not in FLT_TYPES]
            terms, metas = [], []
            for c in coq_cases:
                if c["id"] in res["F"] and not res["F"][c["id"]].get("err"):
                    # one term: generated FIBER model vs yaclib_std columns, std contract vs std::atomic columns
                    t1 = coq_chk_term(c, "BFiber", res["F"][c["id"]], 0, force_nonvol_cas=True)
                    t2 = coq_chk_term(c, "BStd", res["F"][c["id"]], 3)
                    obs2 = t2[t2.rindex(" [") + 1:]
                    body = t1[len("chk_nat BFiber "):]
                    k_T, rest = body.split(" false [", 1)
                    terms.append("chk_nat2 BFiber BStd %s [%s %s" % (k_T, rest, obs2))
                    metas.append((c, "F", (0, 3), ("generated FIBER model (wrapper over fiber::Atomic)",
                                                   "AtomicStd.v contract vs libstdc++ std::atomic")))
                if c["id"] in res["T"] and not res["T"][c["id"]].get("err"):
                    terms.append(coq_chk_term(c, "BThread", res["T"][c["id"]], 0))
                    metas.append((c, "T", 0, "generated THREAD model (wrapper over std::atomic)"))
            for c in ub:
                terms.append(coq_term(c, "BFiber", strict=True))
                metas.append((c, "FA", None, "strict C++ semantics of the generated FIBER model vs UBSan"))
            out, logs = vlib.coq_eval_cases(HEADER, terms, "c19", shard=max(60, len(terms) // (2 * vlib.NPROC) + 1)) if terms else ([], [])
            bad = []
            for (c, cfg, side, what), nums in zip(metas, out):
                if nums is None:
                    bad.append((c, cfg, what if isinstance(what, str) else what[0], "model evaluation failed: " + (logs[0][-600:] if logs else "")))
                    continue
                if side is None:
                    pred = decode(nums)
                    r, tail = ub_obs.get(c["id"], (None, ""))
                    model_ub = any(p is None for p in pred)
                    impl_ub = "runtime error" in tail
                    if model_ub != impl_ub:
                        bad.append((c, cfg, what, "model says %s, UBSan says %s" % ("undefined" if model_ub else "defined", "undefined" if impl_ub else "defined")))
                    else:
                        validated += 1
                    continue
                if isinstance(side, tuple):
                    n1 = nums[0]
                    parts = (nums[1:1 + n1], nums[1 + n1:])
                    good = True
                    for sd, wh, part in zip(side, what, parts):
                        why = explain_chk(c, part, res[cfg][c["id"]], sd)
                        if why:
                            bad.append((c, cfg, wh, why))
                            good = False
                        else:
                            validated += 1
                    continue
                why = explain_chk(c, nums, res[cfg][c["id"]], side)
                if why:
                    bad.append((c, cfg, what, why))
                else:
                    validated += 1
            for c, cfg, what, why in bad[:8]:
                ck.broken.append(dict(name="correspondence %s on a %s sequence of atomic<%s>" % (what, c["group"], c["type"]),
                                      detail="%s\nconfig %s, case: %s" % (why, cfg, case_line(c)[:1500])))
            if len(bad) > 8:
                ck.notes.append("%d more correspondence mismatches not listed" % (len(bad) - 8))
    lap("coq evaluation")
    ck.cov["timing_s"] = tm
    # ---------------------------------------------------------------- evidence
    distinct = set()
    for cfg in ("F", "T"):
        for c in main_cases:
            r = res[cfg].get(c["id"])
            if not r or r.get("err"):
                continue
            before = str(c["init"])
            for i, row in enumerate(r["ops"]):
                op = c["ops"][i]
                if op[0] not in ("load", "conv", "fence_t", "fence_s"):
                    distinct.add((cfg, c["type"], op[0], op[1], op[2], before, str(op[4]), str(op[5])))
                before = row[4]
    ck.cov["evaluations"] = total_steps + sweep_checked
    ck.cov["exhaustive_8bit"] = dict(operations_compared=sweep_checked, groups=sweep_rows,
                                     what="int8_t and uint8_t: every operation and cv-overload x all 256 stored values x all 256 arguments "
                                          "(compare_exchange: x 2 desired values x injected failure yes/no), both backends, against std::atomic")
    ck.cov["programs"] = len(main_cases) * 2 + len(ub)
    ck.cov["disagreements_checked"] = len(ck.hits) + len([b for b in ck.broken if b["name"].startswith("correspondence")])
    ck.cov["distinct_nontrivial"] = len(distinct)
    ck.cov["rule"] = ("operations executed on the real yaclib_std::atomic / atomic_flag next to std::atomic (configs F and T, plus one "
                      "UBSan process per overflow case in FA); non-trivial = distinct (backend, T, operation, cv-overload, injected "
                      "spurious failure?, stored value before, arguments) excluding plain loads and fences; sequences: boundary "
                      "operand grid per operation and type, seeded random sequences (seed %d), every accepted memory order per "
                      "operation, NaN/-0.0 for floating compare_exchange, overflow cases, floating add/sub around half-ulp ties "
                      "(single vs double rounding) for float/double/long double" % ck.seed)
    ck.cov["cases"] = {k: len(v) for k, v in by_group.items()}
    ck.cov["types"] = ALL_TYPES
    ck.cov["traces_validated_against_impl"] = validated
    ck.cov["exhaustive"] = False
    ck.cov["samples"] = [dict(group=c["group"], case=case_line(c)[:400]) for c in
                         [by_group["random"][0], by_group["orders"][0], by_group["ub"][0], by_group["boundary"][5]]]
    if not res["F"] or not res["T"]:
        ck.broken.append(dict(name="differential harness produced no results", detail=str(crashes)[:2000]))


def replay(ck, path):
    d = json.load(open(path))
    rp = d.get("replay") or {}
    if not rp.get("case"):
        print("nothing to replay: %s" % json.dumps(d)[:3000])
        return 0
    cfg = rp.get("config", "F")
    extra = (["-D_GLIBCXX_ASSERTIONS"] if cfg == "T" else []) + LINK
    exe, b = vlib.compile_harness(cfg, [HARNESS], "c19", extra=extra)
    fd, p = tempfile.mkstemp(prefix="c19.replay.", suffix=".cases", dir=SCRATCH)
    with os.fdopen(fd, "w") as f:
        f.write(rp["case"] + "\n")
    rows, out, err, rc = runner.run_harness(exe, [p], env=rp.get("env"))
    os.remove(p)
    print(out)
    if err:
        print(err[-2000:])
    bad = rc != 0
    for r in rows:
        for row in r.get("ops", []):
            if row[0:3] != row[3:6]:
                bad = True
                print("MISMATCH yaclib_std (returned, stored, expected) = %s   std::atomic = %s" % (row[0:3], row[3:6]))
    return 1 if bad else 0
