"""C04 — no data races: release/acquire proofs over orders translated from the source, + TSan search.
Proof: coq/props/Properties_C04.v over lib/RA.v (view-based RA machine): RAHandoff (callback word), RACounter
       (reference/event counters, any number of holders), RAOwn (ownership transfer through any hand-off word,
       any number of threads).  Tie: tools/translate_orders.py regenerates coq/gen/Gen_orders.v from the tree
       under check on every run (orders + operation skeleton); the theorems instantiate the side conditions on it.
Search: (i) the necessity witnesses are evaluated under the CURRENT orders inside Coq (a racy machine execution
       is a model-level counter-example); (ii) multi-threaded client programs on real threads under
       ThreadSanitizer (config TS); a report is a concrete failing run."""
import json, os, re, subprocess, sys
import vlib, runner

sys.path.insert(0, os.path.join(vlib.VERIF, "tools"))
import translate_orders

WITNESS_V = r'''
From Coq Require Import List String Bool. Import ListNotations.
From YV Require Import lib.RA gen.Gen_orders.
From YV Require model.RAHandoff proofs.RAHandoffProofs model.RACounter proofs.RACounterProofs.
From YV Require Import props.Properties_C04.
Definition b2n (b : bool) := if b then 1 else 0.
Import RAHandoff.
Definition hw := [ [PWriteS; PXchg; CWriteK; CLoad 1; CReadS]; [PWriteS; CWriteK; CLoad 0; PXchg; CCas; CReadS];
                   [CWriteK; CLoad 0; CCas; PWriteS; PXchg; PReadK]; [PWriteS; CWriteK; PXchg; CLoad 1; CReadS];
                   [CWriteK; PWriteS; CLoad 0; CCas; PXchg; PReadK] ].
'''


def eval_witnesses(orders_term):
    hdr = WITNESS_V.replace("From YV Require Import props.Properties_C04.", PROPS_DEFS)
    terms = ["map (fun tr => b2n (RAHandoffProofs.racy %s tr)) hw" % orders_term]
    return hdr, terms


PROPS_DEFS = r'''
Local Open Scope string_scope.
Definition bc := "src/algo/base_core.cpp".
Definition bh := "include/yaclib/algo/detail/base_core.hpp".
Definition ac := "include/yaclib/util/detail/atomic_counter.hpp".
Definition o (file func obj op : string) (k i : nat) : mo := ord_of ops file func obj op k i.
Definition handoff_orders : RAHandoff.orders :=
  {| RAHandoff.o_load := o bc "SetCallbackImpl" "_callback" "load" 1 0;
     RAHandoff.o_cas_s := o bc "SetCallbackImpl" "_callback" "compare_exchange_strong" 0 0;
     RAHandoff.o_cas_f := o bc "SetCallbackImpl" "_callback" "compare_exchange_strong" 0 1;
     RAHandoff.o_xchg := o bc "SetResultImpl" "_callback" "exchange" 0 0 |}.
Definition ready_orders : RAHandoff.orders :=
  {| RAHandoff.o_load := o bh "Empty" "_callback" "load" 0 0;
     RAHandoff.o_cas_s := o bc "SetCallbackImpl" "_callback" "compare_exchange_strong" 0 0;
     RAHandoff.o_cas_f := o bc "SetCallbackImpl" "_callback" "compare_exchange_strong" 0 1;
     RAHandoff.o_xchg := o bc "SetResultImpl" "_callback" "exchange" 0 0 |}.
Definition shared_orders : RAHandoff.orders :=
  {| RAHandoff.o_load := o bc "SetCallbackImpl" "_callback" "load" 0 0;
     RAHandoff.o_cas_s := o bc "SetCallbackImpl" "_callback" "compare_exchange_weak" 0 0;
     RAHandoff.o_cas_f := o bc "SetCallbackImpl" "_callback" "compare_exchange_weak" 0 1;
     RAHandoff.o_xchg := o bc "SetResultImpl" "_callback" "exchange" 0 0 |}.
Definition o_dec := o ac "SubEqual" "count" "fetch_sub" 0 0.
Definition o_fence := o ac "SubEqual" "<fence>" "fence" 0 0.
Import RACounter.
Definition cw := [EAccess 0; EAccess 1; EDec 0; EDec 1; EFence 1; EDelete 1].
'''


def main(ck):
    ck.assumptions = [
        "RA machine of lib/RA.v: promise-free (no load buffering), RMWs read the last message and continue release sequences (C++20), plain stores append at the end of the modification order, loads may read any message not older than the reader's view",
        "the ownership discipline fed to RAOwn (who publishes/acquires which data with which operation) is the sequentially consistent protocol logic of the other models; it is not re-derived here",
        "orders and operation skeleton are read from the source lexically (tools/translate_orders.py) with a fixed macro table (no sanitizer, symmetric transfer on, futex off); hardware/compiler behaviour is not observed",
        "TSan search runs the TSAN code path of AtomicCounter::SubEqual (acq_rel decrement instead of release + acquire fence), as the library does under ThreadSanitizer",
    ]
    ck.cov["trusted_base"] = [
        "Coq 8.16.1 kernel + vm_compute (order lookups, necessity witnesses); Print Assumptions: closed under the global context for all 18 theorems",
        "tools/translate_orders.py (lexical translator, regenerates coq/gen/Gen_orders.v on every run)",
        "ThreadSanitizer (gcc 12 libtsan) for the dynamic search only",
    ]
    # ---- translator: regenerate Gen_orders.v from the tree under check
    gen = os.path.join(vlib.COQ, "gen", "Gen_orders.v")
    try:
        ops = translate_orders.run(vlib.REPO, gen)
    except SystemExit as e:
        ck.broken.append(dict(name="translator tools/translate_orders.py", detail=str(e)))
        ops = []
    ck.cov["translated_atomic_operations"] = len(ops)
    ok = ck.prove("props/Properties_C04.v")
    # ---- model-side search under the current orders
    model_hits = []
    hdr, terms = eval_witnesses("handoff_orders")
    terms.append("map (fun tr => b2n (RAHandoffProofs.racy ready_orders tr)) hw")
    terms.append("map (fun tr => b2n (RAHandoffProofs.racy shared_orders tr)) hw")
    terms.append("[b2n (RACounterProofs.racy o_dec o_fence 2 cw)]")
    res, logs = vlib.coq_eval_cases(hdr, terms, "c04w")
    names = ["callback word (unique)", "Ready() then read", "callback word (shared)", "counter"]
    ck.cov["model_witness_evaluations"] = sum(len(r) for r in res if r)
    for nm, r in zip(names, res):
        if r is None:
            ck.broken.append(dict(name="evaluation of RA witnesses under current orders (%s)" % nm, detail="\n".join(logs)[-2000:]))
        elif any(r):
            model_hits.append("%s: racy RA execution #%d under the orders in the source" % (nm, r.index(1)))
    # ---- implementation-side search: real threads under TSan
    reps = 150 if ck.tier == "quick" else 1500
    exe, b = vlib.compile_harness("TS", [os.path.join(vlib.VERIF, "harness", "h_c04.cpp")], "c04")
    env = dict(os.environ)
    env["TSAN_OPTIONS"] = "halt_on_error=1 exitcode=66 second_deadlock_stack=1"
    programs = ["handoff_then", "handoff_get", "handoff_ready", "shared_observers", "strand_jobs", "pool_jobs",
                "waitgroup", "when_all_any", "refcount", "coro_mutex", "coro_shared_mutex"]
    import concurrent.futures
    def run_prog(p):
        try:
            r = subprocess.run([exe, p, str(reps), str(ck.seed)], stdout=subprocess.PIPE, stderr=subprocess.PIPE,
                               text=True, env=env, timeout=900)
            return p, r.returncode, r.stdout, r.stderr
        except subprocess.TimeoutExpired:
            return p, 124, "", "timeout"
    total = 0
    samples = []
    with concurrent.futures.ThreadPoolExecutor(max_workers=6) as ex:
        for p, rc, out, err in ex.map(run_prog, programs):
            if rc == 0:
                total += reps
                samples.append(dict(program=p, repetitions=reps, tsan_reports=0))
            else:
                m = re.search(r"SUMMARY: ThreadSanitizer: (.*)", err)
                ck.hits.append(dict(what="ThreadSanitizer on real threads, program %s: %s" % (p, m.group(1) if m else err[-300:]),
                                    key="tsan:" + p,
                                    replay=dict(harness="h_c04", config="TS", program=p, repetitions=reps, seed=ck.seed,
                                                report=err[-3000:], model_counterexamples=model_hits)))
    if model_hits and not ck.hits:
        # a racy execution of the model under the source's orders, not (yet) reproduced on hardware by TSan
        ck.broken.append(dict(name="RA machine: " + "; ".join(model_hits),
                              detail="the necessity witness traces of coq/proofs/RA*Proofs.v race under the orders currently in the source"))
    ck.cov["evaluations"] = total
    ck.cov["programs"] = len(programs)
    ck.cov["distinct_nontrivial"] = len([s for s in samples])
    ck.cov["rule"] = ("each of %d multi-threaded client programs (hand-off via continuation/Get/Ready, SharedFuture observers, Strand jobs on a "
                      "3-thread pool, pool jobs + Wait, WaitGroup, WhenAll/WhenAny, reference counting, coroutine Mutex and SharedMutex) run "
                      "%d times on real threads under ThreadSanitizer with seeded scheduling jitter; every program has a plain payload "
                      "written before publication and read after observation, so each is a non-trivial happens-before probe; "
                      "distinct_nontrivial counts the programs that completed without report") % (len(programs), reps)
    ck.cov["samples"] = samples[:4] + [dict(translated=o) for o in ops[:3]]
    ck.cov["traces_validated_against_impl"] = 0
    ck.cov["exhaustive"] = False


def replay(ck, path):
    d = json.load(open(path))
    rp = d.get("replay") or {}
    if not rp.get("program"):
        print(json.dumps(d, indent=1)[:3000])
        return 0
    exe, b = vlib.compile_harness("TS", [os.path.join(vlib.VERIF, "harness", "h_c04.cpp")], "c04")
    env = dict(os.environ)
    env["TSAN_OPTIONS"] = "halt_on_error=1 exitcode=66"
    r = subprocess.run([exe, rp["program"], str(rp.get("repetitions", 500)), str(rp.get("seed", 1))], env=env)
    return 1 if r.returncode != 0 else 0
