"""C07 — Strand: one job at a time, in submission order, none lost.
Proof: coq/props/Properties_C07.v (invariant of the Strand LTS: any number of submitters, activations, workers).
Tie:   the real yaclib::Strand (FIBER backend) over an instrumented manual executor with worker fibers, over
       FairThreadPool(1|2) optionally stopped, and over another Strand, is explored (exhaustive DFS for the small
       configurations, seeded random walks for the larger ones); every distinct trace is mapped, per observed
       strand, to the model's events and replayed through Strand.run inside Coq: the model must accept every event
       with the observed values and predict the observed Call order / Drop order / quiescence.
Oracle (property text only) runs inside the harness on every execution."""
import concurrent.futures, json, os, re, shutil, time
import vlib, runner

HARNESS = os.path.join(vlib.VERIF, "harness", "h_c07.cpp")


def ptr(v):
    if v == "I":
        return "PIdle"
    if v == "N":
        return "PNull"
    m = re.match(r"L(\d+)\.(\d+)$", v)
    if not m:
        raise ValueError("unknown value of the jobs word: " + v)
    return "(PJob (%s, %s))" % (m.group(1), m.group(2))


def jid(txt):
    t, n = txt.split(".")
    return int(t), int(n)


def to_events(trace, lvl):
    """Implementation trace -> (events of the strand of level lvl, observed call order, observed drop order, N).
    Purely syntactic, except that the value returned by an exchange / the success of a CAS is reconstructed from the
    previous value of the word (the FIBER backend is sequentially consistent)."""
    w = "j%d" % lvl
    cur = "I"
    evs, calls, drops = EvList(), [], []
    insub = {}       # fiber -> dict(t, n, loaded, must)
    dropping = set() # fibers inside the drop loop of a Drop activation of this level
    maxt = -1
    suf = str(lvl)
    for ti, tok in enumerate(trace.split(";")):
        if not tok:
            continue
        who, _, rest = tok.partition(":")
        evs.at = (ti, who)
        mine = None
        if rest.startswith("!"):
            head, _, arg = rest[1:].partition(" ")
            m = re.match(r"([a-z]+)(\d+)$", head)
            if not m:
                raise ValueError("unknown marker " + tok)
            if m.group(2) != suf:
                continue
            mine = ("mark", m.group(1), arg)
        else:
            m = re.match(r"([a-z_]+)@([a-z]+\d*)=(\S+)$", rest)
            if not m:
                raise ValueError("unknown trace token " + tok)
            if m.group(2) != w:
                continue
            mine = ("op", m.group(1), m.group(3))
        if who in dropping and not (mine[0] == "mark" and mine[1] == "d"):
            evs.append("EDropDone")
            dropping.discard(who)
        kind, name, arg = mine
        if kind == "mark":
            if name == "sub":
                t, n = arg.split(" ")
                insub[who] = dict(t=int(t), n=int(n), loaded=False, must=False)
                maxt = max(maxt, int(t))
            elif name == "ret":
                if who not in insub or insub[who]["must"]:
                    raise ValueError("Submit returned in an unexpected state: " + tok)
                del insub[who]
            elif name == "xs":
                if who in insub and insub[who]["must"]:
                    evs.append("ESubmit %d" % insub[who]["t"])
                    insub[who]["must"] = False
                else:
                    evs.append("EResubmit")
            elif name == "call":
                evs.append("EStartCall")
            elif name == "drop":
                evs.append("EStartDrop")
            elif name == "b":
                t, n = jid(arg)
                evs.append("ERunBegin (%d, %d)" % (t, n))
                calls.append((t, n))
            elif name == "e":
                t, n = jid(arg)
                evs.append("ERunEnd (%d, %d)" % (t, n))
            elif name == "d":
                t, n = jid(arg)
                evs.append("EDropJob (%d, %d)" % (t, n))
                drops.append((t, n))
            else:
                raise ValueError("unknown marker " + tok)
            continue
        val = arg
        sub = insub.get(who)
        if sub is not None and name in ("load", "compare_exchange_weak") and not sub.get("pushed"):
            if name == "load":
                if val != cur:
                    raise ValueError("load returned %s but the word holds %s: %s" % (val, cur, tok))
                if not sub["loaded"]:
                    evs.append("ELoad %d %s" % (sub["t"], ptr(val)))
                    sub["loaded"] = True
                else:   # the fault layer's spurious failure of compare_exchange_weak reloads expected
                    evs.append("ECasFail %d %s" % (sub["t"], ptr(val)))
            else:
                ok = val == "L%d.%d" % (sub["t"], sub["n"]) and cur != val
                if ok:
                    evs.append("EPush %d %d" % (sub["t"], sub["n"]))
                    sub["pushed"] = True
                    sub["must"] = cur == "I"
                else:
                    if val != cur:
                        raise ValueError("failed CAS changed the word: " + tok)
                    evs.append("ECasFail %d %s" % (sub["t"], ptr(val)))
                cur = val
            continue
        if who == "main":
            continue       # the harness's own final look at the word and ~Strand's assertion
        if name == "exchange":
            if val == "N":
                evs.append("EXchgNull %s" % ptr(cur))
            elif val == "I":
                evs.append("EXchgIdle %s" % ptr(cur))
                dropping.add(who)
            else:
                raise ValueError("unexpected exchange: " + tok)
            cur = val
        elif name == "load":
            if val != cur:
                raise ValueError("load returned %s but the word holds %s: %s" % (val, cur, tok))
            evs.append("ELoadAfter %s" % ptr(val))
        elif name == "compare_exchange_strong":
            if cur == "N" and val == "I":
                evs.append("ECasIdleOk")
            else:
                if val != cur:
                    raise ValueError("failed CAS changed the word: " + tok)
                evs.append("ECasIdleFail %s" % ptr(val))
            cur = val
        else:
            raise ValueError("unexpected operation on the jobs word: " + tok)
    for who in sorted(dropping):
        evs.at = (10 ** 9, who)
        evs.append("EDropDone")
    return evs, calls, drops, maxt + 1


class EvList(list):
    """list of event strings that remembers, for each, the trace token (index, fiber) it came from"""
    def __init__(self):
        super().__init__()
        self.at = (0, "")
        self.meta = []

    def append(self, e):
        super().append(e)
        self.meta.append(self.at)


def to_events2(trace):
    """ss/ scenarios: the two observed strands as one run of StrandStack.v.  The outer strand's calls into its underlying
    executor (markers xs1 / call1 / drop1) are fused with the inner strand's push / job begin / job drop of the proxy job
    executed by the same fiber."""
    e0, c0, d0, n0 = to_events(trace, 0)
    e1, c1, d1, n1 = to_events(trace, 1)
    items = sorted([(m[0], 0, m[1], e) for e, m in zip(e0, e0.meta)] + [(m[0], 1, m[1], e) for e, m in zip(e1, e1.meta)],
                   key=lambda x: (x[0], x[1]))
    out, pend, expect = [], {}, {}
    for _, lvl, who, e in items:
        if lvl == 1:
            if e.startswith("ESubmit "):
                pend[who] = "SubmitOuter %s" % e.split()[1]
            elif e == "EResubmit":
                pend[who] = "ResubmitOuter"
            elif e in ("EStartCall", "EStartDrop"):
                if expect.pop(who, None) != e:
                    raise ValueError("outer %s by %s without the inner job event" % (e, who))
            else:
                out.append("Outer (%s)" % e)
        else:
            if e.startswith("EPush "):
                if who not in pend:
                    raise ValueError("inner push by %s that is not a submission of the outer strand" % who)
                out.append("%s %s" % (pend.pop(who), e[len("EPush "):]))
            elif e.startswith("ERunBegin "):
                out.append("CallOuter %s" % e[len("ERunBegin "):])
                expect[who] = "EStartCall"
            elif e.startswith("EDropJob "):
                out.append("DropOuter %s" % e[len("EDropJob "):])
                expect[who] = "EStartDrop"
            else:
                out.append("Inner (%s)" % e)
    if pend or expect:
        raise ValueError("unmatched outer executor call")
    return out, n0, n1, len(c1), len(d1), len(c0) + len(d0)


def levels_of(scenario):
    return [0, 1] if scenario.startswith("ss/") else [0]


def contended(trace, lvl):
    """Non-trivial: a submitter's push (load .. successful CAS) is interleaved with another thread's operation on the
    same jobs word, or a push lands while an activation of the strand is between its exchange and its release/resubmit
    (the window the property is about), or an activation is refused (Drop path)."""
    w = "@j%d=" % lvl
    ops = [(t.split(":")[0], t) for t in trace.split(";") if w in t and not t.startswith("main:")]
    # window: exchange -> N by an activation, then a compare_exchange_weak by someone else before that activation's
    # next load/CAS on the word
    inrun = None
    for who, t in ops:
        if ":exchange@" in t and t.endswith("=N"):
            inrun = who
        elif inrun and who != inrun and "compare_exchange_weak" in t:
            return True
        elif inrun and who == inrun and ("compare_exchange_strong" in t):
            inrun = None
    first, last = {}, {}
    for i, (who, t) in enumerate(ops):
        first.setdefault(who, i)
        last[who] = i
    for a in first:
        if any(who != a for who, _ in ops[first[a]:last[a]]):
            return True
    return ("!drop%d" % lvl) in trace


def explore(exe, args, timeout):
    return runner.run_harness(exe, args, timeout=timeout)


def plan(ck):
    """(scenario, harness arguments, claims exhaustive?)"""
    quick = ck.tier != "thorough"
    seed = str(ck.seed)
    P = []
    named = ["--param", "yields=named"]
    full = ["--mode", "dfs", "--max", "100000000"]
    # exhaustive DFS over every scheduling decision, manual executor with worker fibers
    for base in ("man/S1J1W1", "man/S1J2W1", "man/S1J1W2", "man/S2J1W1"):
        for r in ("ok", "ref", "inl"):
            P.append((base + "/" + r, full, True))
    for sc in ("re/S1J1W1/ok", "re/S1J1W1/ref", "ss/S1J1W1/ok", "ss/S1J1W1/ref"):
        P.append((sc, full, True))
    if quick:
        # spurious weak-CAS failure, preemption-bounded
        P.append(("man/S2J1W1/ok", ["--mode", "dfs", "--pb", "2", "--weak", "1", "--max", "2000000"] + named, False))
        for sc in ("man/S2J1W2/ok", "man/S2J1W2/ref", "man/S2J1W2/inl", "man/S2J2W1/ok", "man/S2J2W1/ref",
                   "man/S2J2W2/ref", "ss/S2J1W1/ref"):
            P.append((sc, ["--mode", "dfs", "--pb", "2", "--max", "300000"] + named, False))
    else:
        # spurious weak-CAS failure explored exhaustively (switches at the jobs word and inside jobs)
        P.append(("man/S2J1W1/ok", full + ["--weak", "1"] + named, True))
        P.append(("man/S2J1W1/ref", full + ["--weak", "1"] + named, True))
        for r in ("ok", "ref", "inl"):
            P.append(("man/S2J1W2/" + r, ["--mode", "dfs", "--pb", "3", "--max", "8000000"] + named, False))
            P.append(("man/S2J2W1/" + r, ["--mode", "dfs", "--pb", "4", "--max", "8000000"] + named, False))
            P.append(("man/S2J2W2/" + r, ["--mode", "dfs", "--pb", "2", "--max", "5000000"] + named, False))
        for sc in ("ss/S2J1W1/ok", "ss/S2J1W1/ref", "re/S2J1W1/ref", "re/S1J1W2/ref"):
            P.append((sc, ["--mode", "dfs", "--pb", "2", "--max", "4000000"] + named, False))
    # seeded random walks (switch at every wrapped operation, one spurious weak-CAS failure allowed)
    nrand = 250 if quick else 2500
    rnd = ["man/S3J3W2/ok", "man/S3J3W2/ref", "man/S3J3W2/inl", "man/S3J2W1/ref", "man/S2J3W2/ref",
           "re/S2J1W2/ok", "re/S2J1W2/ref", "ss/S2J1W1/ok", "ss/S2J2W2/ok", "ss/S2J2W2/ref", "ss/S2J1W2/ref"]
    for w in (1, 2):
        for stp in ("run", "stop", "hard", "soft"):
            rnd.append("pool/S2J1W%d/%s" % (w, stp))
            rnd.append("pool/S2J2W%d/%s" % (w, stp))
        rnd.append("pool/S3J2W%d/hard" % w)
        rnd.append("pool/S3J2W%d/run" % w)
    for sc in rnd:
        P.append((sc, ["--mode", "random", "--max", str(nrand), "--seed", seed, "--weak", "1"], False))
    # Where the switch is offered (.agents/YIELD_AT.md): every DFS pass runs a second time with the switch AFTER the
    # operation (a fiber is stopped between its CAS/exchange and the plain code that follows it, e.g. the linking of the
    # pushed node); random walks switch at both places.
    # Quick tier: the two largest unbounded DFS passes (2x1x1 /ref and /inl) keep the after-pass for the thorough tier
    # only (their /ok sibling and every other DFS pass run it in both tiers).
    Q = []
    for sc, args, exh in P:
        if "dfs" in args:
            Q.append((sc, args, exh))
            if quick and exh and sc in ("man/S2J1W1/ref", "man/S2J1W1/inl"):
                continue
            Q.append((sc, args + ["--yield-at", "after"], exh))
        else:
            Q.append((sc, args + ["--yield-at", "both"], exh))
    return Q


def main(ck):
    ck.assumptions = [
        "FIBER backend: sequentially consistent, switches only at the wrapped yaclib_std operations (memory-order effects are C04's subject)",
        "the model is Strand.v: the jobs word protocol of Strand::Submit/Call/Drop; the strand's reference counter, the Job objects' virtual dispatch and the underlying executors' own code are exercised, not modelled; the underlying executor is modelled by its contract only (a pending activation is started once, by Call or by Drop, at any time, on any thread)",
        "a Job object is submitted to the strand once (intrusive next pointer); jobs terminate",
        "tracer reads the word's value through the YACLIB_VERIF after-hook (first 8 bytes of the atomic object)",
    ]
    ck.cov["trusted_base"] = [
        "Coq 8.16.1 kernel + vm_compute (used for replaying traces and in Example witnesses)",
        "Print Assumptions of every theorem in Properties_C07.v: Closed under the global context (no axioms)",
        "checks/c07.py trace-to-event mapping (syntactic) and harness/h_c07.cpp oracle + instrumented executors",
        "YACLIB_VERIF hooks in the fault layer; FIBER scheduler and fiber atomics (C17-C19 are about those)",
    ]
    exe0, b = vlib.compile_harness("F", [HARNESS], "c07")
    # private copy: the shared build cache prunes old trees while other checks run
    priv = "/var/tmp/c07.run.%d" % os.getpid()
    os.makedirs(priv, exist_ok=True)
    exe = os.path.join(priv, "h_c07")
    shutil.copy2(exe0, exe)
    try:
        no_blocking_primitive(ck, b)
        explore_and_compare(ck, exe)
    finally:
        shutil.rmtree(priv, ignore_errors=True)
        cases = os.path.join(vlib.COQ, "cases")
        for f in os.listdir(cases) if os.path.isdir(cases) else []:
            if re.match(r"c07s?_%d_\d+\.v$" % os.getpid(), f):
                try:
                    os.remove(os.path.join(cases, f))
                except OSError:
                    pass


def no_blocking_primitive(ck, b):
    """'never blocks a thread of the underlying executor', source side: the model has only non-blocking atomic operations
    on the jobs word; the strand's translation unit must not name a blocking primitive at all."""
    bad = []
    for rel in ("src/exe/strand.cpp", "include/yaclib/exe/strand.hpp"):
        text = open(os.path.join(b["src"], rel)).read()
        text = re.sub(r"//[^\n]*|/\*.*?\*/", "", text, flags=re.S)
        for m in re.finditer(r"\b(mutex|condition_variable|lock_guard|unique_lock|\.wait\w*\(|->wait\w*\(|Wait\w*\(|sleep\w*|yield\(|atomic_wait|\.lock\(|notify_\w+)", text):
            bad.append("%s: %s" % (rel, m.group(0)))
    ck.cov["obligations"] += 1
    if bad:
        ck.broken.append(dict(name="Strand source names a blocking primitive (model has none)", detail="\n".join(bad)))
    else:
        ck.cov["discharged"] += 1


def opts_of(args):
    """the options of an exploration that a replay must repeat (they decide where choices are offered)"""
    keep, i = [], 0
    while i < len(args):
        if args[i] in ("--pb", "--weak", "--param", "--max-choices", "--yield-at"):
            keep += [args[i], args[i + 1]]
        i += 1
    return keep


def yield_at_of(args):
    return args[args.index("--yield-at") + 1] if "--yield-at" in args else "before"


def explore_and_compare(ck, exe):
    P = plan(ck)
    t0 = time.time()
    results = []
    with concurrent.futures.ThreadPoolExecutor(max_workers=max(2, vlib.NPROC - 1)) as ex:
        futs = [(sc, args, exh, ex.submit(explore, exe, ["--exact", sc] + args, 1500 if ck.tier == "thorough" else 170))
                for sc, args, exh in P]
        # the proof stage runs while the harness explores
        ck.prove("props/Properties_C07.v", ["model/StrandObs.vo", "model/StrandStack.vo"])
        for sc, args, exh, f in futs:
            results.append((sc, args, exh, f.result()))
    heads, traces = [], []
    exhaustive_cfgs, bounded_cfgs, random_cfgs = [], [], []
    for sc, args, exh, (rows, out, err, rc) in results:
        if rc != 0:
            m = re.search(r"CRASH signal=(\d+) choices=([\d,]*)", out + err)
            if rc == 124:
                ck.notes.append("exploration of %s %s hit the time limit; its partial output is not used" % (sc, " ".join(args)))
                continue
            ck.hits.append(dict(what="harness crashed on %s (rc=%d) %s" % (sc, rc, (err or out)[-600:]), key="crash",
                                replay=dict(harness="h_c07", scenario=sc, opts=opts_of(args), yield_at=yield_at_of(args),
                                            choices=m.group(2) if m else None)))
            continue
        hs = [r for r in rows if "mode" in r]
        heads += hs
        for h in hs:
            label = "%s %s" % (sc, " ".join(a for a in args if a not in ("--max",) and not a.isdigit() or a in ("1", "2", "3")))
            if h["mode"] == "dfs" and h["exhaustive"]:
                exhaustive_cfgs.append(dict(scenario=sc, executions=h["executions"], distinct=h["distinct"],
                                            weak=h["weak_fail_budget"], yields="named" if "yields=named" in args else "all",
                                            yield_at=yield_at_of(args)))
            elif h["mode"] == "dfs":
                bounded_cfgs.append(dict(scenario=sc, executions=h["executions"], distinct=h["distinct"],
                                         preemption_bound=h["preemption_bound"], cut=h["cut"], yield_at=yield_at_of(args)))
                if exh:
                    ck.notes.append("DFS of %s did not complete within --max; counted as bounded" % sc)
            else:
                random_cfgs.append(dict(scenario=sc, executions=h["executions"], distinct=h["distinct"]))
        for t in rows:
            if "trace" in t:
                t["args"] = args
                traces.append(t)
    ck.cov["evaluations"] = sum(h["executions"] for h in heads)
    ck.cov["exhaustive"] = False   # the overall exploration mixes exhaustive, bounded and random parts; see below
    ck.cov["exhaustive_configurations"] = exhaustive_cfgs
    ck.cov["bounded_configurations"] = bounded_cfgs
    ck.cov["random_configurations"] = random_cfgs
    ck.cov["explore_wall_s"] = round(time.time() - t0, 1)
    for t in traces:
        if t["fail"] and not t["fail"].startswith("skipped:"):
            ck.hits.append(dict(what="%s: %s" % (t["scenario"], t["fail"]),
                                key=t["scenario"].split("/")[0] + ":" + re.sub(r"\d+\.\d+", "J", t["fail"])[:50],
                                replay=dict(harness="h_c07", scenario=t["scenario"], choices=t["choices"],
                                            trace=t["trace"], opts=opts_of(t["args"]), yield_at=yield_at_of(t["args"]))))
    # ---- correspondence
    terms, metas = [], []
    seen = set()
    for t in traces:
        if t["fail"]:
            continue
        for lvl in levels_of(t["scenario"]):
            try:
                evs, calls, drops, n = to_events(t["trace"], lvl)
            except ValueError as e:
                ck.gen_obligation("correspondence Strand (trace vocabulary)", False, "%s in %s" % (e, t["trace"]))
                continue
            term = "obs_nat %d [%s]" % (n, "; ".join(evs))
            key = (term, tuple(calls), tuple(drops))
            if key in seen:
                continue
            seen.add(key)
            terms.append(term)
            metas.append((t, lvl, calls, drops, len(evs)))
    header = ("From Coq Require Import List. Import ListNotations.\n"
              "From YV Require Import model.Strand model.StrandObs.\n")
    res, logs = vlib.coq_eval_cases(header, terms, "c07", shard=250) if terms else ([], [])
    validated, nontriv, bad = 0, set(), []
    for (t, lvl, calls, drops, nev), r in zip(metas, res):
        if r is None:
            bad.append((t, lvl, "model evaluation failed"))
            continue
        if r[0] == 0:
            bad.append((t, lvl, "model rejects event #%d of %d" % (r[1], nev)))
            continue
        quiescent, refused, nactive, idle, xok, npushed = r[1:7]
        nc = r[7]
        mcalls = r[8:8 + 2 * nc]
        nd = r[8 + 2 * nc]
        mdrops = r[9 + 2 * nc:9 + 2 * nc + 2 * nd]
        flat = lambda l: [x for p in l for x in p]
        if mcalls != flat(calls) or mdrops != flat(drops):
            bad.append((t, lvl, "model predicts calls %s drops %s, implementation showed %s %s" % (mcalls, mdrops, calls, drops)))
        elif quiescent != 1 or idle != 1 or nactive != 0:
            bad.append((t, lvl, "model not quiescent/idle at the end of the implementation run (quiescent=%d idle=%d active=%d)" % (quiescent, idle, nactive)))
        elif xok != 1:
            bad.append((t, lvl, "executor-interface LTS rejects the projected trace or is not complete"))
        elif npushed != len(calls) + len(drops):
            bad.append((t, lvl, "pushed %d jobs but %d finished" % (npushed, len(calls) + len(drops))))
        else:
            validated += 1
            if contended(t["trace"], lvl):
                nontriv.add("%s|%d|%s" % (t["scenario"], lvl, t["trace"]))
    # ---- strand over strand: the same traces as one run of the two-level model StrandStack.v
    terms2, metas2, seen2 = [], [], set()
    for t in traces:
        if t["fail"] or not t["scenario"].startswith("ss/"):
            continue
        try:
            evs2, n0, n1, nc, nd, npx = to_events2(t["trace"])
        except ValueError as e:
            ck.gen_obligation("correspondence StrandStack (trace vocabulary)", False, "%s in %s" % (e, t["trace"]))
            continue
        term = "obs2_nat %d %d [%s]" % (n0, n1, "; ".join(evs2))
        if term in seen2:
            continue
        seen2.add(term)
        terms2.append(term)
        metas2.append((t, nc, nd, npx))
    header2 = ("From Coq Require Import List. Import ListNotations.\n"
               "From YV Require Import model.Strand model.StrandStack.\n")
    res2, logs2 = vlib.coq_eval_cases(header2, terms2, "c07s", shard=250) if terms2 else ([], [])
    validated2 = 0
    for (t, nc, nd, npx), r in zip(metas2, res2):
        if r is None:
            bad.append((t, 2, "two-level model evaluation failed"))
        elif r[0] == 0:
            bad.append((t, 2, "two-level model rejects event #%d" % r[1]))
        elif r[1:4] != [1, 1, 0] or r[4] != npx or r[5] != nc or r[6] != nd:
            bad.append((t, 2, "two-level model ends with quiescent2=%d outer-quiescent=%d proxies-pending=%d proxies=%d "
                              "calls=%d drops=%d; implementation showed proxies=%d calls=%d drops=%d" % (tuple(r[1:7]) + (npx, nc, nd))))
        else:
            validated2 += 1
    ck.cov["two_level_replays_validated"] = validated2
    ck.cov["traces_validated_against_impl"] = validated
    ck.cov["distinct_traces"] = len(traces)
    ck.cov["distinct_model_replays"] = len(terms)
    ck.cov["distinct_nontrivial"] = len(nontriv)
    ck.cov["rule"] = ("every distinct implementation trace (sequence of operations on the observed jobs word(s) with their values, "
                      "executor markers and job begin/end/drop markers), per observed strand, mapped to Strand.v events and replayed "
                      "with vm_compute; exhaustive DFS over every scheduling decision (switch before each wrapped operation incl. the "
                      "reference counter, next fiber, worker's Call/Drop choice) for 1-2 submitters x 1-2 jobs x 1 worker and 1x1x2 over "
                      "the manual executor, strand-over-strand 1x1x1 and the re-entrant submit; 'yields=named' DFS (switch only before "
                      "operations on the jobs word and inside jobs; exhaustive for that decision set) incl. one spurious weak-CAS failure; "
                      "preemption-bounded DFS (--pb, NOT exhaustive) for 2x1x2, 2x2x1, 2x2x2 in the quick tier, completed without a bound "
                      "for 2x1x2 and 2x2x1/ok in the thorough tier; seeded random walks (--weak 1) for 3x3, thread pools (1, 2 workers; "
                      "Stop/HardStop/SoftStop at an explored point) and strand over strand; every DFS pass is run with the switch offered "
                      "before the operation and again with the switch offered after it (--yield-at after; quick tier omits the after-pass "
                      "of 2x1x1 /ref and /inl), random walks offer it at both places; non-trivial = another thread's operation on the "
                      "word falls inside a thread's first..last operation on it, or a push lands between a batch's exchange and its "
                      "release CAS, or an activation is refused (Drop)")
    ck.cov["samples"] = [dict(scenario=t["scenario"], trace=t["trace"], choices=t["choices"], executions=t["count"])
                         for t in ([x for x in traces if x["scenario"].startswith("man/S2J1W1/ref")][:2] +
                                   [x for x in traces if x["scenario"].startswith("ss/")][:1] +
                                   [x for x in traces if x["scenario"].startswith("pool/") and "hard" in x["scenario"]][:1])]
    for t, lvl, why in bad[:10]:
        ck.broken.append(dict(name="correspondence %s vs implementation on %s (level %d)" % ("Strand.run" if lvl < 2 else "StrandStack.run2", t["scenario"], lvl),
                              detail="%s\ntrace: %s\nchoices: %s\nargs: %s" % (why, t["trace"], t["choices"], " ".join(t["args"]))))
    if not traces:
        ck.broken.append(dict(name="correspondence Strand.run vs implementation", detail="harness produced no traces"))
    # ---- "consecutive jobs are ordered by happens-before": this clause is about memory orders, which the sequentially
    # consistent FIBER exploration above cannot see.  It is decided by C04's machinery (RAOwn: ownership transfer through
    # the strand's jobs word is race free under the orders translated from src/exe/strand.cpp; TSan program strand_jobs).
    # That part of C04 runs here too and its strand verdicts count for C07.
    from checks import c04
    sub = runner.Check("C04", ck.tier, ck.seed)
    c04.main(sub)
    n_h = n_b = 0
    for h in sub.hits:
        if "strand" in h["what"].lower():
            n_h += 1
            ck.hits.append(dict(what="[C04 machinery, happens-before between strand jobs] %s" % h["what"], key="viaC04:%s" % h.get("key"),
                                replay=dict(h.get("replay") or {}, via="C04")))
    for b in sub.broken:
        if "strand" in b["name"].lower():
            n_b += 1
            ck.broken.append(dict(name="[C04 machinery] " + b["name"], detail=b["detail"]))
    ck.cov["happens_before_clause_via_C04"] = dict(strand_race_reports=n_h, strand_obligations_broken=n_b,
                                                   obligations="c04_skeleton_strand, c04_strand_orders_ok, c04_ownership_transfer_race_free",
                                                   tsan_program="strand_jobs")


def replay(ck, path):
    d = json.load(open(path))
    rp = d.get("replay") or {}
    if rp.get("via") == "C04":
        from checks import c04
        return c04.replay(ck, path)
    if not rp.get("scenario") or rp.get("choices") is None:
        print("nothing to replay: %s" % json.dumps(d)[:2000])
        return 0
    exe, b = vlib.compile_harness("F", [HARNESS], "c07")
    args = ["--mode", "replay", "--exact", rp["scenario"], "--choices", rp["choices"]] + list(rp.get("opts", []))
    if "--yield-at" not in args:
        args += ["--yield-at", rp.get("yield_at", "before")]
    rows, out, err, rc = runner.run_harness(exe, args)
    print(out)
    bad = any(r.get("fail") for r in rows if "trace" in r)
    return 1 if bad or rc != 0 else 0
