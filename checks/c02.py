"""C02 — a pipeline computes what its steps say: routing, recovery, unwrapping.
Proof: coq/props/Properties_C02.v — core_run (mirror of core.hpp's dispatch) = seq_eval (the sequential reading of the
       property text) for every program, every callback body, every length; corollaries per clause.
Tie:   program correspondence.  The same typed pipeline programs are (a) assembled at run time from a generated table of
       template instantiations and run on the real library (config BC, one thread, instrumented manual executors, every
       program in a crash-isolated worker) and (b) evaluated by Pipe.core_run / seq_eval inside Coq (vm_compute); final
       Result and the ordered list of (callback id, argument) must coincide.  Pipe.invocable is checked against the
       compiler by static_assert in the generated table.
Oracle: harness/h_c02_lib.hpp Oracle — the sequential reading re-implemented from the property text, in-process."""
import json, os, random, re, time
import vlib, runner
from checks import pipelib as L
import gen_pipeline_table as T

HARNESS = os.path.join(vlib.VERIF, "harness", "h_c02.cpp")


def plans(tier):
    if tier == "thorough":
        return [(0, True, 0), (1, False, 3), (1, True, 0), (2, False, 1), (3, False, 0)], 30000
    return [(0, True, 0), (1, False, 2), (2, False, 0)], 5000


def features(p, evs):
    """(nontrivial?, distribution keys) of one executed program; evs = [(id, inkind, reskind, payload)]"""
    called = {}
    for e in evs:
        called.setdefault(e[0], e)
    keys = []
    nontrivial = False
    skind = p["src"][0] + ":" + p["src"][1]

    def walk(q, top):
        nonlocal nontrivial
        fl = []
        s = q["src"]
        if s[0] == "run":
            fl.append(("run", s[2], s[3]))
        for o in q["ops"]:
            if o[0] == "then":
                a = o[1]
                fl.append((a if isinstance(a, str) else "on-" + ("stopped" if a[1] == "s" else "alive"), None, o[2]))
        for (att, _, f) in fl:
            ev = called.get(f["id"])
            if ev is None:
                state = "skipped"
                if top:
                    nontrivial = True
            else:
                state = ["val", "val", "err", "exc"][ev[2]]
                if ev[2] >= 2:
                    nontrivial = True
                if f["beh"][0] == "async":
                    nontrivial = True
                    walk(f["beh"][1], False)
                if f["beh"][0] in ("throw", "reserr", "resexc"):
                    nontrivial = True
            keys.append("%s|%s|%s|%s|%s" % (f["par"], state, f["ret"], att, skind))
    walk(p, True)
    return nontrivial, keys


def violation_key(p, row):
    heads = L.inner_task_heads(p)
    if "run" in heads:
        return "inner-task-head-schedule"
    if "prom" in heads:
        return "inner-task-head-lazycontract"
    sig = ".".join("%s%s" % (f["par"], f["ret"]) for f in L.fns(p, top_only=True))[:60]
    return "%s:%s:%s" % (row.get("key") or "crash", p["src"][0] + p["src"][1], sig)


def main(ck):
    ck.assumptions = [
        "callback bodies are total functions of their argument; values/errors/exceptions are integers (Pipe.v)",
        "every alive executor eventually runs what is submitted to it (the harness drains its manual executors until "
        "quiescent and fulfils late promises one at a time); hand-off timing is C01's subject, not modelled here",
        "one consumer per SharedFuture; Result::Empty, Detach-type final steps, WhenAll/WhenAny and coroutine bodies "
        "that co_await are outside Pipe.v",
        "configuration BC (shipped configuration + coroutines, no fault layer), single thread",
    ]
    ck.cov["trusted_base"] = [
        "Coq 8.16.1 kernel + vm_compute (evaluation of core_run / seq_eval on the explored programs, Example witnesses)",
        "Print Assumptions of every theorem in Properties_C02.v (recorded below)",
        "checks/pipelib.py: the two printers (wire text for the harness, Gallina term for Coq) of one program AST",
        "harness/h_c02_lib.hpp: interpreter, functor classes, event log, in-process oracle; tools/gen_pipeline_table.py typing rules "
        "(every cell is compiled; Pipe.invocable is static_assert-ed against yaclib::is_invocable_v)",
        "g++ template instantiation / overload resolution is below the model",
    ]
    ck.prove("props/Properties_C02.v", ["model/PipeObs.vo"])
    exe, b = L.build_harness(HARNESS, "c02")
    rng = random.Random(ck.seed)
    pick = lambda n, k: sorted(rng.sample(range(n), min(k, n)))
    plan, nrandom = plans(ck.tier)
    t0 = time.time()
    progs = L.enumerate_plan(plan, pick)
    n_enum = len(progs)
    progs += [L.random_program(rng) for _ in range(nrandom)]
    # distinct programs only
    seen, uniq = set(), []
    for p in progs:
        w = L.wire(p)
        if w not in seen:
            seen.add(w)
            uniq.append((p, w))
    ck.notes.append("generated %d programs (%d enumerated, %d sampled, %d distinct) in %.1fs" % (
        len(progs), n_enum, nrandom, len(uniq), time.time() - t0))
    t0 = time.time()
    rows, errs = L.run_programs(exe, [w for _, w in uniq], "c02")
    t_impl = time.time() - t0
    t0 = time.time()
    obs, logs = L.coq_obs([L.gallina(p) for p, _ in uniq], "c02")
    t_coq = time.time() - t0
    ck.notes.append("implementation run %.1fs, Coq evaluation %.1fs" % (t_impl, t_coq))
    validated, bad, nontriv, dist, cells, anomalies = 0, [], 0, {}, set(), 0
    for (p, w), row, o in zip(uniq, rows, obs):
        d = L.decode_obs(o)
        if row is None:
            bad.append((w, "harness produced no result for this program (%s)" % "; ".join(errs)[:300]))
            continue
        if row.get("fail"):
            ck.hits.append(dict(what="%s on program %s" % (row["fail"], w), key=violation_key(p, row),
                                replay=dict(harness="h_c02", program=w, key=violation_key(p, row), observed=row)))
            continue
        if d is None:
            bad.append((w, "model evaluation failed: %s" % (logs[0][-600:] if logs else "")))
            continue
        final, evs = L.parse_row(row)
        if not d["compiles"]:
            bad.append((w, "Pipe.core_run says the program does not compile, the compiler accepted it"))
        elif not d["typed"]:
            bad.append((w, "Pipe.prog_ty rejects a program the compiler accepted"))
        elif not d["agree"]:
            bad.append((w, "core_run and seq_eval disagree on this program"))
        elif d["final"] != final or d["events"] != evs:
            bad.append((w, "model predicts final %s calls %s, implementation showed %s %s" % (d["final"], d["events"], final, evs)))
        else:
            validated += 1
            nt, keys = features(p, evs)
            nontriv += 1 if nt else 0
            for k in keys:
                dist[k] = dist.get(k, 0) + 1
            L.cells_of(p, cells)
            if row.get("live") or not row.get("once", True):
                anomalies += 1
    # ---- one shared source, two successive pipelines that return it from callbacks, and direct reads afterwards
    t0 = time.time()
    sc = L.share_cases(rng, ck.tier)
    seen_s, scases = set(), []
    for c in sc:
        w = L.wire_share(c)
        if w not in seen_s:
            seen_s.add(w)
            scases.append((c, w))
    srows, serrs = L.run_programs(exe, [w for _, w in scases], "c02s")
    sobs, slogs = L.coq_share([L.gallina_share(c) for c, _ in scases], "c02s")
    s_valid, s_fulfilled_before = 0, 0
    for (c, w), row, o in zip(scases, srows, sobs):
        if row is None:
            bad.append((w, "harness produced no result for this share case (%s)" % "; ".join(serrs)[:300]))
            continue
        if row.get("fail"):
            key = "shared-source:%s" % (row.get("key") or "crash")
            ck.hits.append(dict(what="%s on %s" % (row["fail"], w), key=key,
                                replay=dict(harness="h_c02", program=w, key=key, observed=row)))
            continue
        if o is None or any(x is None for x in o):
            bad.append((w, "model evaluation of the share case failed: %s" % (slogs[0][-600:] if slogs else "")))
            continue
        direct, evs = L.parse_row(row)
        finals = [direct] + [(L.RES_KIND.get(row[k].split(":")[0], 9), int(row[k].split(":")[1])) for k in ("final1", "final2")]
        why = None
        for part, seg, fin, name in zip((c["src"], c["p1"], c["p2"]), o, finals, ("source", "1st pipeline", "2nd pipeline")):
            d = L.decode_obs(seg)
            ids = set(L.all_ids(part))
            mine = [e for e in evs if e[0] in ids]
            if not (d["compiles"] and d["typed"] and d["agree"]):
                why = "%s: compiles/typed/seq-agree flags %s" % (name, seg[:3])
            elif d["final"] != fin or d["events"] != mine:
                why = "%s: model predicts %s %s, implementation showed %s %s" % (name, d["final"], d["events"], fin, mine)
            if why:
                break
        if why:
            bad.append((w, why))
        else:
            s_valid += 1
            if c["src"]["src"][0] == "contract" and not c["src"]["src"][4]:
                s_fulfilled_before += 1
    ck.notes.append("share cases: %d distinct, %d validated, %.1fs" % (len(scases), s_valid, time.time() - t0))
    ck.cov["shared_source_cases"] = dict(cases=len(scases), validated=s_valid, contract_fulfilled_before_the_users=s_fulfilled_before,
                                         form="one SharedFuture (contract early/late, RunShared, AsyncSharedContract; 0-2 extra handles) "
                                              "returned from callbacks of two successive pipelines, then both pipelines and the handle are "
                                              "read (twice); model: obs_share = each pipeline with handle_of (core_run source) substituted")
    ck.cov["payloads"] = ("value type Pay and error type Err leave -7777 in a moved-from object, a moved-from exception_ptr is "
                          "reported as exc:-7777; used in every world of the table (all then-/run-cells)")
    ck.cov["evaluations"] = len(uniq) + len(scases)
    validated += s_valid
    nontriv += s_valid
    ck.cov["traces_validated_against_impl"] = validated
    ck.cov["distinct_nontrivial"] = nontriv
    ck.cov["exhaustive"] = False
    ck.cov["rule"] = ("programs = every source of the catalogue alone; every program over the alphabets listed in `plan` "
                      "(steps, full source catalogue?, alphabet level; level 3 = every typed cell x every behaviour x every attach, "
                      "0 = ~20 steps per world) — exhaustive over those alphabets, not over all programs; plus seeded random programs "
                      "of 4-8 steps weighted towards Task-/SharedFuture-returning callbacks and recovery after unwrapping.  non-trivial = "
                      "a top-level callback was skipped, or some callback saw / produced a failure, or a returned handle was unwrapped "
                      "(every validated share case counts: two unwrappings of one shared state)")
    ck.cov["plan"] = [list(x) for x in plan]
    ck.cov["sampled"] = nrandom
    ck.cov["table"] = dict(then_cells=len(T.then_cells()), run_cells=len(T.run_cells()),
                           then_cells_exercised=len([c for c in cells if c[0] == "then"]),
                           run_cells_exercised=len([c for c in cells if c[0] == "run"]))
    marg = {}
    for k, n in dist.items():
        par, state, ret, att, src = k.split("|")
        for dim, v in (("parameter", par), ("input", state), ("return", ret), ("attach", att), ("source", src)):
            marg.setdefault(dim, {})
            marg[dim][v] = marg[dim].get(v, 0) + n
    ck.cov["distribution"] = dict(distinct_keys=len(dist), marginals=marg)
    ck.cov["functor_lifetime_anomalies"] = anomalies
    ck.cov["samples"] = [dict(program=w, final=row["final"], events=row["events"])
                         for (p, w), row in list(zip(uniq, rows))[:2] + list(zip(uniq, rows))[-3:] if row and "final" in row]
    for w, why in bad[:10]:
        ck.broken.append(dict(name="correspondence Pipe.core_run vs implementation", detail="%s\nprogram: %s" % (why, w)))
    if bad:
        ck.notes.append("%d programs do not correspond" % len(bad))


def replay(ck, path):
    d = json.load(open(path))
    rp = d.get("replay") or {}
    if not rp.get("program"):
        print("nothing to replay: %s" % json.dumps(d)[:2000])
        return 0
    exe, b = L.build_harness(HARNESS, "c02")
    rows, errs = L.run_programs(exe, [rp["program"]], "c02r")
    print(json.dumps(rows[0]))
    return 1 if rows[0] is None or rows[0].get("fail") else 0
