"""C17 — fiber fault-injection runs are reproducible from (program, seed, fault configuration).

Proof: coq/props/Properties_C17.v — the invariances reproducibility needs, for the executable scheduler/injector model
       coq/model/Sched.v: equivariance under injective renaming of fiber ids, invariance under a shift of the virtual
       clock, checkpoint (the rest of a run after a quiescent point is a function of (random count, injector state)),
       draws are consumed in order, sanity invariants (clock monotone; no fiber in two queues; a sleeper is never
       resumed before its deadline) -- proofs/SchedProofs.v (simulation) and proofs/SchedInvProofs.v (invariant).
Tie:   the real library runs client programs with statically known action lists; the explorer decides NOTHING (the
       library's own seeded engine does); a recorder (resume hook + a choose hook that returns -1) yields the token
       sequence; Sched.run, fed with the raw outputs of std::mt19937_64(seed), must predict it token by token, with
       the recorded (count, state) pairs, the virtual times and the results.
Oracle (property text only): the same (program, seed, configuration) is run (a) twice in one process, (b) in a fresh
       process, (c) restored from every recorded (GetFaultRandomCount(), GetInjectorState()) pair; traces must be
       identical (fiber ids up to renaming by first appearance, virtual times up to the offset of the clock).
       The allocation history of every second / fresh / restored run is PERTURBED (h_c17 --perturb: blocks of fiber-object
       size are allocated and freed in a seeded random order first, so fiber objects get addresses unrelated to their
       creation order), and many programs let several fibers sleep until ONE common absolute deadline, entered in an
       order that differs from the creation order: a wake-up order that depends on addresses diverges.
       Clients also draw from yaclib_std::random_device (fresh per use, one per fiber, a long-lived one with reset()), log
       the values and let them steer yields / locks / log contents; the reference for a device's stream is
       mt19937_64(seed) (to_coq expands it), so a stream that depends on anything else (fiber ids, ...) disagrees with
       the model in a single run and diverges in the same-process and restored differentials (fibers are created
       before every compared part, so the process-wide id counter differs)."""
import concurrent.futures, json, os, random, re, subprocess
import vlib, runner

HARNESS = os.path.join(vlib.VERIF, "harness", "h_c17.cpp")

# ------------------------------------------------------------------------------------------------ programs (DSL)

def gen_inner(rng, allow_untimed):
    """operations inside a critical section of mutex m (filled in by the caller)"""
    k = rng.choice("aawwynNtts" + ("c" if allow_untimed else ""))
    return k


def gen_body(rng, st, depth, allow_untimed):
    ops = []
    n = rng.randint(1, 6)
    pending_joins = []
    for _ in range(n):
        r = rng.random()
        if r < 0.22:
            ops.append(("a",))
        elif r < 0.31:
            ops.append(("w",))
        elif r < 0.34:
            # values from yaclib_std::random_device steer the fiber (fresh device / the fiber's own device)
            ops.append(("R", rng.choice([2, 3])) if depth >= 1 and rng.random() < 0.5 else ("r", rng.choice([2, 3, 4])))
        elif r < 0.40:
            ops.append(("y",))
        elif r < 0.47:
            ops.append(("s", rng.choice([1, 5, 10, 17, 30, 64, 100, 150])))
        elif r < 0.52 and st.get("D"):
            # sleep until a deadline that other fibers of this phase use too (they enter the sleep in scheduling order)
            if rng.random() < 0.7:
                ops.append(("S", rng.choice(st["D"])))
            else:
                ops.append(("U", rng.randrange(2), rng.choice(st["D"])))
        elif r < 0.68:
            m = rng.randrange(3)
            ops.append(("l", m))
            for _ in range(rng.randint(1, 3)):
                k = gen_inner(rng, allow_untimed)
                if k == "a":
                    ops.append(("a",))
                elif k == "w":
                    ops.append(("w",))
                elif k == "y":
                    ops.append(("y",))
                elif k == "s":
                    ops.append(("s", rng.choice([3, 20, 45])))
                elif k == "n":
                    ops.append(("n", rng.randrange(2)))
                elif k == "N":
                    ops.append(("N", rng.randrange(2)))
                elif k == "t":
                    if st.get("D") and rng.random() < 0.3:
                        ops.append(("T", rng.randrange(2), m, rng.choice(st["D"])))
                    else:
                        ops.append(("t", rng.randrange(2), m, rng.choice([1, 8, 25, 60, 120])))
                elif k == "c":
                    ops.append(("c", rng.randrange(2), m))
            ops.append(("u", m))
        elif r < 0.74:
            ops.append((rng.choice("nN"), rng.randrange(2)))
        elif r < 0.82:
            ops.append(("Q", rng.randrange(2), rng.choice([1, 7, 33, 90])))
        elif r < 0.90:
            ops.append((rng.choice("kK"), rng.randrange(2)))
        elif r < 0.93 and allow_untimed:
            ops.append(("q", rng.randrange(2)))
        elif depth < 2 and st["slot"] < 60:
            sl = st["slot"]
            st["slot"] += 1
            ops.append(("f", sl, gen_body(rng, st, depth + 1, allow_untimed)))
            pending_joins.append(sl)
        else:
            ops.append(("a",))
        if pending_joins and rng.random() < 0.4:
            ops.append(("j", pending_joins.pop()))
    for sl in pending_joins:
        ops.append(("j", sl))
    return ops


def gen_program(rng, phases, allow_untimed=False, detach=False):
    st = {"slot": 0}
    ops = []
    for ph in range(phases):
        if ph:
            ops.append(("p",))
        common = rng.random() < 0.6
        st["D"] = rng.sample([120, 250, 400, 800], rng.randint(1, 2)) if common else None
        if common:
            ops.append(("e",))          # epoch = now(); S/U/T deadlines are epoch + D
        kids = []
        for _ in range(rng.randint(1, 4)):
            sl = st["slot"]
            st["slot"] += 1
            ops.append(("f", sl, gen_body(rng, st, 1, allow_untimed)))
            kids.append(sl)
            if rng.random() < 0.3:
                ops.append(rng.choice([("a",), ("y",), ("w",)]))
        ops += [o for o in gen_body(rng, st, 0, False) if o[0] not in ("f", "j")]
        if rng.random() < 0.4:
            ops.append(("G",))
        if allow_untimed:
            # wake whoever may still be parked on a condition variable / bare queue, a few times
            for _ in range(2):
                ops += [("s", 200), ("N", 0), ("N", 1), ("K", 0), ("K", 1)]
        rng.shuffle(kids)
        last = ph == phases - 1
        for sl in kids:
            if detach and last and rng.random() < 0.4:
                ops.append(("d", sl))
            else:
                ops.append(("j", sl))
        if detach and last:
            ops.append(("s", 5000))
    return ops


def to_text(ops):
    out = []
    for o in ops:
        k = o[0]
        if k in "awypeG":
            out.append(k)
        elif k == "f":
            out.append("f%d(%s)" % (o[1], to_text(o[2])))
        else:
            out.append(k + ",".join(str(x) for x in o[1:]))
    return " ".join(out)


def to_coq(ops, dev=None):
    """Sched.cmd list of a fiber body.  dev = raw outputs of mt19937_64(seed): the stream of every
    yaclib_std::random_device (a function of the seed alone).  This is the reference for the device: the values the
    client draws, and the steering they cause, are expanded here into plain commands (r: a fresh device, first output;
    R: the fiber's own device, k-th output at its k-th use in this body; G: the driver's device after reset())."""
    out = []
    mine = 0
    for o in ops:
        k = o[0]
        if k == "r":
            v = dev[0]
            out += ["CLogVal %d" % v] + ["CYield"] * (v % o[1])
            continue
        if k == "R":
            v = dev[mine]
            mine += 1
            out += ["CLogVal %d" % v, "CLock %d" % (v % o[1]), "CAtomic", "CUnlock %d" % (v % o[1])]
            continue
        if k == "G":
            v = dev[0]
            out += ["CLogVal %d" % v] + ["CAtomic"] * (v % 3)
            continue
        out.append({
            "a": lambda: "CAtomic", "w": lambda: "CCasW", "y": lambda: "CYield", "p": lambda: "CPhase",
            "e": lambda: "CEpoch", "S": lambda: "CSleepUntil %d" % o[1], "U": lambda: "CQWaitUntil %d %d" % (o[1], o[2]),
            "T": lambda: "CCvWaitUntil %d %d %d" % (o[1], o[2], o[3]),
            "s": lambda: "CSleep %d" % o[1], "l": lambda: "CLock %d" % o[1], "u": lambda: "CUnlock %d" % o[1],
            "c": lambda: "CCvWait %d %d" % (o[1], o[2]), "t": lambda: "CCvWaitFor %d %d %d" % (o[1], o[2], o[3]),
            "n": lambda: "CCvNotifyOne %d" % o[1], "N": lambda: "CCvNotifyAll %d" % o[1],
            "q": lambda: "CQWait %d" % o[1], "Q": lambda: "CQWaitFor %d %d" % (o[1], o[2]),
            "k": lambda: "CQNotifyOne %d" % o[1], "K": lambda: "CQNotifyAll %d" % o[1],
            "f": lambda: "CSpawn %d %s" % (o[1], to_coq(o[2], dev)), "j": lambda: "CJoin %d" % o[1],
            "d": lambda: "CDetach %d" % o[1],
        }[k]())
    return "[" + "; ".join(out) + "]"


def after_phase(ops, k):
    """the driver's program from the k-th phase marker on (marker included)"""
    seen = 0
    for i, o in enumerate(ops):
        if o[0] == "p":
            seen += 1
            if seen == k:
                return ops[i:]
    return []


HAND_PROGRAMS = [
    # wrap-around of BiList::GetElement: more runnable fibers than the pick width
    ("wrap", "f0(a a a)f1(a a a)f2(a a a)f3(a a a)f4(a a a)f5(a a a)f6(a a a) a a j0 j1 j2 j3 j4 j5 j6"),
    # a timed waiter that is notified in time, one that times out, one notified after its time-out moved it to the run queue
    ("timed", "f0(l0 t0,0,60 u0)f1(l0 t0,0,5 u0)f2(s20 l0 n0 u0 s40 n0)f3(Q0,50)f4(y k0) j0 j1 j2 j3 j4"),
    # notify_all order (last waiter first) and mutex hand-over
    ("notifyall", "f0(l1 c1,1 a u1)f1(l1 c1,1 a u1)f2(l1 c1,1 a u1)f3(s300 l1 N1 u1) j3 j0 j1 j2"),
    # sleepers with equal and different deadlines; the clock jumps when nothing is runnable
    ("sleepers", "f0(s100 a)f1(s100 a)f2(s40 a s60 a)f3(s1 s1 s1) s500 j0 j1 j2 j3"),
    # a fiber parked for ever: the run loop returns with the driver blocked in join
    ("parked", "f0(q1 a)f1(a a) j1 j0"),
    # several fibers sleep until ONE common absolute deadline; they enter the sleep in the reverse of their creation
    # order (insertion order into the bucket != creation order != address order); a bare-queue and a condition-variable
    # wait with the same deadline join them when the extra delay is 0 (sleep time 1)
    ("until", "e f0(s50 S500 a) f1(s30 S500 a) f2(s10 S500 a) f3(U0,500) f4(l0 T0,0,500 u0) s900 j0 j1 j2 j3 j4"),
    ("until-many", "e f0(a a a S300 a) f1(a S300 a) f2(S300 a) f3(a a S300 w) f4(y S300 a) f5(y y S300) f6(s5 S300 a) s700 j0 j1 j2 j3 j4 j5 j6"),
    # sleep_for calls that end at the same instant (durations chosen against the tick) next to sleep_until
    ("until-for", "e f0(S200 a) f1(s10 S200 a) f2(y S200) s40 s40 s40 s40 s500 j0 j1 j2"),
    ("until-phases", "e f0(s40 S300 a) f1(S300 a) f2(s20 S300) j0 j1 j2 p e f3(s60 S400 a) f4(s20 S400 a) f5(S400 w) j3 j4 j5 p e f6(a S200) f7(S200 a) f8(y S200 a) j6 j7 j8"),
    # clients steered by yaclib_std::random_device: fresh devices (r), a fiber's own long-lived device (R), the driver's
    # device with reset() (G); fibers are created before every compared part, so the process-wide id counter differs
    ("rdev", "f0(r3 R3 a R3) f1(R2 r2 R2 w) f2(r3 r3) G a j0 j1 j2 p G f3(R3 R3 R3) f4(r2 R3) r3 j3 j4 p f5(r3 R2) f6(R3) G j5 j6"),
    ("rdev-many", "f0(R3) f1(R3) f2(R3) f3(R3 R3) f4(r4 R2) r4 G j0 j1 j2 j3 j4 p f5(R3 r2) f6(r3 R3) G r2 j5 j6"),
    # phases with checkpoints
    ("phases", "f0(a w a)f1(a s30 a) a w j0 j1 p f2(l0 a u0 w)f3(l0 w u0) y j2 j3 p f4(Q1,20)f5(s10 k1) j4 j5 p a w a"),
]


# scenarios with a fixed configuration
FIXED_CASES = [
    # a timed waiter notified just before its deadline while every other fiber sleeps: before 8621598 the empty bucket
    # it left in Scheduler::_sleep_list made RunLoop call GetNext() on an empty run queue (SIGSEGV)
    ("fixed/stalebucket-1", "f0(Q0,15) y K0 s200 j0", dict(seed=1, freq=1000, cas=0, pick=10, tick=10, slpt=1), "main"),
    ("fixed/stalebucket-4", "f0(Q0,15) y K0 s200 j0", dict(seed=4, freq=1000, cas=0, pick=10, tick=10, slpt=1), "main"),
    # two timed waiters with the same deadline, both notified early (the second one finds its bucket already erased)
    ("fixed/until-slpt1-a", "e f0(s50 S500 a) f1(s30 S500 a) f2(s10 S500 a) f3(U0,500) f4(l0 T0,0,500 u0) s900 j0 j1 j2 j3 j4",
     dict(seed=5, freq=1000, cas=0, pick=10, tick=10, slpt=1), "main"),
    ("fixed/until-slpt1-b", "e f0(s50 U1,400 a) f1(s30 S400 a) f2(s10 U1,400 a) f3(S400 a) f4(s20 l0 T0,0,400 u0) s900 j0 j1 j2 j3 j4",
     dict(seed=11, freq=3, cas=2, pick=2, tick=10, slpt=1), "driver"),
    ("fixed/until-phases", "e f0(s40 S300 a) f1(S300 a) f2(s20 S300) j0 j1 j2 p e f3(s60 S400 a) f4(s20 S400 a) f5(S400 w) j3 j4 j5",
     dict(seed=9, freq=1000, cas=0, pick=10, tick=10, slpt=1), "driver"),
    ("fixed/samebucket", "f0(Q0,30) f1(Q0,30) y y K0 s200 j0 j1", dict(seed=3, freq=1000, cas=0, pick=10, tick=10, slpt=1), "main"),
]


def parse_text(text):
    """inverse of to_text (hand-written programs)"""
    pos = 0

    def num():
        nonlocal pos
        m = re.match(r"\d+", text[pos:])
        pos += m.end()
        return int(m.group(0))

    def lst():
        nonlocal pos
        out = []
        while pos < len(text):
            ch = text[pos]
            if ch == " ":
                pos += 1
                continue
            if ch == ")":
                break
            pos += 1
            if ch in "awypeG":
                out.append((ch,))
            elif ch in "sSrRlunNqkKjd":
                out.append((ch, num()))
            elif ch in "cQU":
                a = num(); pos += 1; b = num()
                out.append((ch, a, b))
            elif ch in "tT":
                a = num(); pos += 1; b = num(); pos += 1; c = num()
                out.append((ch, a, b, c))
            elif ch == "f":
                a = num(); pos += 1
                body = lst(); pos += 1
                out.append((ch, a, body))
            else:
                raise ValueError("bad program text at %d: %s" % (pos, text))
        return out
    return lst()


# ------------------------------------------------------------------------------------------------ running the harness

def cfg_args(c):
    return ["--seed", str(c["seed"]), "--freq", str(c["freq"]), "--cas", str(c["cas"]), "--pick", str(c["pick"]),
            "--tick", str(c["tick"]), "--sleeptime", str(c["slpt"])]


def run_h(exe, args, timeout=120):
    try:
        r = subprocess.run([exe] + args, stdout=subprocess.PIPE, stderr=subprocess.PIPE, text=True, timeout=timeout)
        out, err, rc = r.stdout, r.stderr, r.returncode
    except subprocess.TimeoutExpired:
        out, err, rc = "", "TIMEOUT", 124
    rows = []
    for line in out.split("\n"):
        if line.startswith("{"):
            try:
                rows.append(json.loads(line))
            except Exception:
                pass
    return rows, out, err, rc


def cmdline(exe, args):
    return " ".join([exe] + ["'%s'" % a if (" " in a or "(" in a) else a for a in args])


_ID = re.compile(r"^([RBEctxv])(\d+)(.*)$")


def canon_segment(tokens, start, base=0):
    """tokens[start:] with fiber ids renamed by first appearance and virtual times relative to the time shown by the
    last resume before `start` (a restored run starts at another time), else to `base` (the clock of the Scheduler
    when the run started: a Scheduler that is used again continues its clock)."""
    for t in tokens[:start][::-1]:
        m = re.match(r"^R\d+@(\d+)$", t)
        if m:
            base = int(m.group(1))
            break
    names = {}
    out = []
    for t in tokens[start:]:
        m = _ID.match(t)
        if m:
            i = m.group(2)
            if i not in names:
                names[i] = "#%d" % len(names)
            rest = m.group(3)
            tm = re.match(r"^@(\d+)$", rest)
            if m.group(1) == "R" and tm:
                rest = "@+%d" % (int(tm.group(1)) - base)
            t = m.group(1) + names[i] + rest
        out.append(t)
    return out


def first_diff(a, b):
    for i, (x, y) in enumerate(zip(a, b)):
        if x != y:
            return i
    return min(len(a), len(b)) if len(a) != len(b) else -1


def start_index(tokens):
    for i, t in enumerate(tokens):
        if t.startswith("B"):
            return i
    return 0


# ------------------------------------------------------------------------------------------------ Coq evaluation

def coq_eval_N(header, terms, name, shard=12, timeout=900):
    shards = [terms[i:i + shard] for i in range(0, len(terms), shard)]

    def run(idx_sh):
        idx, sh = idx_sh
        body = [header, "Set Printing Depth 10000000.", "Set Printing Width 100000000."]
        for t in sh:
            body.append("Eval vm_compute in (%s)." % t)
        ok, out = vlib.coqc_eval("\n".join(body) + "\n", "%s_%d_%d" % (name, os.getpid(), idx), timeout=timeout)
        res = []
        for m in re.finditer(r"=\s*(\[[^\]]*\]|nil)\s*:\s*list N", out.replace("\n", " ")):
            res.append([int(x) for x in re.findall(r"\d+", m.group(1).replace("%N", ""))])
        if not ok or len(res) != len(sh):
            return [None] * len(sh), out
        return res, out

    results, logs = [], []
    with concurrent.futures.ThreadPoolExecutor(max_workers=vlib.NPROC) as ex:
        for res, out in ex.map(run, list(enumerate(shards))):
            results.extend(res)
            logs.append(out)
    return results, logs


def impl_numbers(tokens):
    """recorder tokens -> the numeric encoding of SchedObs.enc_obs"""
    out = []
    for t in tokens:
        c = t[0]
        if c == "R":
            m = re.match(r"R(\d+)@(\d+)$", t)
            out += [1, int(m.group(1)), int(m.group(2))]
        elif c == "Y":
            out += [2]
        elif c == "P":
            out += [3, int(t[1:])]
        elif c == "D":
            out += [4, int(t[1:])]
        elif c == "W":
            out += [5]
        elif c == "c":
            m = re.match(r"c(\d+):(\d)$", t)
            out += [6, int(m.group(1)), int(m.group(2))]
        elif c == "v":
            m = re.match(r"v(\d+):(\d+)$", t)
            out += [10, int(m.group(1)), int(m.group(2))]
        elif c == "t":
            m = re.match(r"t(\d+):(\d)$", t)
            out += [7, int(m.group(1)), int(m.group(2))]
        elif c == "|":
            m = re.match(r"\|(\d+):(\d+):(\d+)(.*)$", t)
            out += [9, int(m.group(2)), int(m.group(3))]
            if m.group(4):
                out += [-1]          # the harness says the point was not quiescent
        elif c in "BE":
            pass
        elif t == "!CRASH8":
            out += [8, 8]            # assert "Queue can't be empty" + null dereference in Scheduler::GetNext
        elif t == "!ASSERT":
            out += [8]
        else:
            raise ValueError("unknown recorder token " + t)
    return out


def split_model(r):
    """model output -> (tokens, trailer dict)"""
    tr = r[-7:]
    return r[:-7], dict(finished=tr[1], crashed=tr[2], rc=tr[3], inj=tr[4], live=tr[5], now=tr[6])


def nontrivial_tokens(tokens):
    """a run is non-trivial when some fiber other than the one that ran last is resumed while the previous one is
    still runnable or asleep, i.e. there are at least 3 resumes of at least 2 different fibers and at least one
    injected yield or timed wake-up"""
    res = [t for t in tokens if t.startswith("R")]
    ids = set(t.split("@")[0] for t in res)
    return len(res) >= 3 and len(ids) >= 2


# ------------------------------------------------------------------------------------------------ the check

def configs(rng, n, loops=False):
    """loops: the client has CAS loops; SetAtomicFailFrequency(1) makes every weak CAS fail (a livelock by configuration)"""
    out = []
    for i in range(n):
        out.append(dict(seed=rng.randrange(1, 2 ** 31), freq=rng.choice([1, 2, 3, 5, 8, 16]),
                        cas=rng.choice([0, 2, 4, 13] if loops else [0, 1, 2, 4, 13]), pick=rng.choice([1, 2, 3, 10]),
                        tick=rng.choice([1, 3, 10, 25]), slpt=rng.choice([1, 7, 100, 200])))
    return out


def main(ck):
    ck.assumptions = [
        "libstdc++'s std::mt19937_64 and its seeding are outside YACLib: the model takes the engine's outputs as a Section variable `draws`; the check feeds it the outputs of an independent std::mt19937_64(seed)",
        "ucontext switching, stack allocation and the client programs' own determinism (no addresses, wall clock, hash order in the clients) are outside the model; any such dependence inside the fault layer shows up as a divergence",
        "the recorder only observes: gHooks.resume and a gHooks.choose that returns -1 for every request (the library's engine decides everything)",
        "the harness never frees memory during a run (pointer-CAS retries of the clients must not depend on address reuse); the second run of a process, the fresh process and every restored run start from a seeded perturbation of the allocation history (fiber objects then have addresses in an order unrelated to their creation order)",
        "seeding / restoring are done inside the driver fiber (place=driver) or on the main thread before it starts (place=main); a restore is always made inside the driver fiber, the only place where `continue from that point' is meaningful (starting a driver consumes a draw)",
    ]
    ck.cov["trusted_base"] = [
        "Coq 8.16.1 kernel + vm_compute (Sched.run on recorded draws; Example witnesses)",
        "Print Assumptions of every theorem in Properties_C17.v",
        "checks/c17.py: DSL text <-> Sched.cmd translation (syntactic), token encoding, pairwise trace comparison",
        "harness/h_c17.cpp recorder + DSL interpreter; YACLIB_VERIF observation hooks (resume, choose)",
        "libstdc++ std::mt19937_64",
    ]
    ck.prove("props/Properties_C17.v", ["model/SchedObs.vo"])
    exe, b = vlib.compile_harness("F", [HARNESS], "c17")
    rng = random.Random(ck.seed * 7919 + 17)
    quick = ck.tier == "quick"

    # ---------------------------------------------------------------- A. correspondence on DSL programs
    n_rand = 40 if quick else 400
    cases = []
    cfgs = configs(rng, n_rand + len(HAND_PROGRAMS) * 3)
    ci = 0
    for name, text in HAND_PROGRAMS:
        for _ in range(3):
            cases.append(dict(name="hand/" + name, ops=parse_text(text), cfg=cfgs[ci], place=rng.choice(["driver", "main"])))
            ci += 1
    for name, text, cf, place in FIXED_CASES:
        cases.append(dict(name=name, ops=parse_text(text), cfg=cf, place=place))
    n_special = len(cases)
    for i in range(n_rand):
        untimed = rng.random() < 0.15
        ops = gen_program(rng, rng.randint(1, 3), allow_untimed=untimed, detach=(not untimed and rng.random() < 0.2))
        cases.append(dict(name="rand/%d" % i, ops=ops, cfg=cfgs[ci], place=rng.choice(["driver", "main"])))
        ci += 1

    def run_case(c):
        base = ["--prog", to_text(c["ops"]), "--label", c["name"], "--place", c["place"]] + cfg_args(c["cfg"])
        pk = 1 + (c["cfg"]["seed"] * 31 + len(c["name"])) % 100000
        c["pk"] = pk
        # the second run of the process and the fresh process start from a perturbed allocation history
        args = base + ["--runs", "2", "--perturb", str(pk), "--perturb-from", "1"]
        rows, out, err, rc = run_h(exe, args)
        base = base + ["--perturb", str(pk + 7)]
        c["args"], c["base"], c["rows"], c["rc"], c["out"], c["err"] = args, base, rows, rc, out, err
        rows2, out2, err2, rc2 = run_h(exe, base)      # a fresh process
        c["rows_fresh"], c["rc_fresh"], c["out_fresh"] = rows2, rc2, out2
        return c

    with concurrent.futures.ThreadPoolExecutor(max_workers=vlib.NPROC) as ex:
        cases = list(ex.map(run_case, cases))

    evaluations = 0
    hits = ck.hits

    def add_hit(what, key, replay):
        hits.append(dict(what=what, key=key, replay=replay))

    def compare_pair(kind, key, label, ta, ia, tb, ib, cmds, extra=None, base_a=0, base_b=0):
        """oracle: two token sequences of the same (program, seed, configuration) must be identical"""
        a, bb = canon_segment(ta, ia, base_a), canon_segment(tb, ib, base_b)
        d = first_diff(a, bb)
        if d >= 0:
            add_hit("%s: %s: traces differ at token %d (%s vs %s), lengths %d / %d" % (
                label, kind, d, a[d] if d < len(a) else "<end>", bb[d] if d < len(bb) else "<end>", len(a), len(bb)),
                key, dict(harness="h_c17", kind=kind, commands=cmds, first_differing_index=d,
                          left=" ".join(a[max(0, d - 6):d + 4]), right=" ".join(bb[max(0, d - 6):d + 4]), **(extra or {})))
            return False
        return True

    terms, metas = [], []
    need_draws = {}
    oracle_pairs = dict(same_process=0, fresh_process=0, restored=0)
    crash_predicted = 0
    for c in cases:
        rows = c["rows"]
        if c["rc"] == 70 and c["rc_fresh"] == 70 and "PARTIAL " in c["out"] and "PARTIAL " in c["out_fresh"]:
            # the library crashed (a defect of the scheduler, not of reproducibility): the crash itself must be
            # reproducible, and the model must predict it at the same token
            pa = c["out"].split("PARTIAL ", 1)[1].split("\n")[0].split()
            pb = c["out_fresh"].split("PARTIAL ", 1)[1].split("\n")[0].split()
            evaluations += 2
            if compare_pair("(b) run in a fresh process (both runs crash)", "rerun-fresh-process", c["name"], pa, 0, pb, 0,
                            [cmdline(exe, c["base"])]):
                oracle_pairs["fresh_process"] += 1
            tail = ["!ASSERT", "P1", "D%d" % (2 * c["cfg"]["pick"])]
            if pa[-3:] == tail:
                c["tokens"] = pa[:-3] + ["!CRASH8"]
                c["crashed"] = True
                need_draws[c["cfg"]["seed"]] = max(need_draws.get(c["cfg"]["seed"], 0), sum(1 for t in pa if t[0] == "D") + 8, 64)
            else:
                add_hit("%s: harness crashed in an unexpected place: ... %s" % (c["name"], " ".join(pa[-12:])), "crash",
                        dict(harness="h_c17", commands=[cmdline(exe, c["base"])]))
            continue
        if c["rc"] != 0 or len(rows) != 2 or c["rc_fresh"] != 0 or len(c["rows_fresh"]) != 1:
            add_hit("%s: harness crashed or gave no result (rc=%s/%s) %s" % (c["name"], c["rc"], c["rc_fresh"], (c["err"] or c["out"])[-400:]),
                    "crash", dict(harness="h_c17", commands=[cmdline(exe, c["args"])]))
            continue
        evaluations += 3
        t0, t1, tf = [r["trace"].split() for r in (rows[0], rows[1], c["rows_fresh"][0])]
        cmd = cmdline(exe, c["args"])
        # (a) twice in one process, (b) fresh process
        if compare_pair("(a) second run in the same process after SetSeed + SetInjectorState(0)", "rerun-same-process",
                        c["name"], t0, 0, t1, 0, [cmd]):
            oracle_pairs["same_process"] += 1
        if compare_pair("(b) run in a fresh process", "rerun-fresh-process", c["name"], t0, 0, tf, 0, [cmd, cmdline(exe, c["base"])]):
            oracle_pairs["fresh_process"] += 1
        for k in ("finished", "injected", "inj_end"):
            if rows[0][k] != rows[1][k] or rows[0][k] != c["rows_fresh"][0][k]:
                add_hit("%s: %s differs between runs: %s %s %s" % (c["name"], k, rows[0][k], rows[1][k], c["rows_fresh"][0][k]),
                        "rerun-result", dict(harness="h_c17", commands=[cmd]))
        if rows[0]["rand_end"] != c["rows_fresh"][0]["rand_end"] or rows[1]["rand_end"] != rows[0]["rand_end"]:
            add_hit("%s: GetFaultRandomCount() at the end differs between runs of the same seed: %s %s %s" % (
                c["name"], rows[0]["rand_end"], rows[1]["rand_end"], c["rows_fresh"][0]["rand_end"]),
                "restore-absolute-count", dict(harness="h_c17", kind="(n) final GetFaultRandomCount() of the two runs in one process and of the fresh process", commands=[cmd, cmdline(exe, c["base"])]))
        need_draws[c["cfg"]["seed"]] = max(need_draws.get(c["cfg"]["seed"], 0), rows[0]["rand_end"] + 8, 64)
        c["tokens"] = t0

    # (c) restore from every recorded pair (fresh process), DSL programs with phases
    restore_jobs = []
    for c in cases:
        if "tokens" not in c or c.get("crashed"):
            continue
        for cp in c["rows"][0]["checkpoints"]:
            restore_jobs.append((c, cp))
    if quick:
        restore_jobs = restore_jobs[:40]

    def run_restore(job):
        c, cp = job
        args = ["--prog", to_text(c["ops"]), "--label", c["name"], "--place", c["place"], "--rplace", "driver",
                "--from", str(cp["phase"]), "--count", str(cp["count"]), "--state", str(cp["state"]),
                "--perturb", str(c["pk"] + 13 + cp["phase"])] + cfg_args(c["cfg"])
        rows, out, err, rc = run_h(exe, args)
        return c, cp, args, rows, rc, out, err

    with concurrent.futures.ThreadPoolExecutor(max_workers=vlib.NPROC) as ex:
        restored = list(ex.map(run_restore, restore_jobs))
    restored_for_model = []
    for c, cp, args, rows, rc, out, err in restored:
        cmd = cmdline(exe, args)
        if rc != 0 or len(rows) != 1:
            add_hit("%s: restored run crashed (rc=%s) %s" % (c["name"], rc, (err or out)[-300:]), "crash",
                    dict(harness="h_c17", commands=[cmd]))
            continue
        evaluations += 1
        full = c["tokens"]
        mark = "|%d:" % cp["phase"]
        try:
            i_full = next(i for i, t in enumerate(full) if t.startswith(mark))
            rt = rows[0]["trace"].split()
            i_res = next(i for i, t in enumerate(rt) if t.startswith(mark))
        except StopIteration:
            ck.gen_obligation("restore scenario %s" % c["name"], False, "phase marker %s missing\n%s" % (mark, cmd))
            continue
        if compare_pair("(c) restored from (count=%d, state=%d) recorded at phase %d" % (cp["count"], cp["state"], cp["phase"]),
                        "restore-absolute-count", c["name"], full, i_full, rt, i_res,
                        [cmdline(exe, c["args"]), cmd]):
            oracle_pairs["restored"] += 1
        restored_for_model.append((c, cp, rows[0], rt))

    # ---------------------------------------------------------------- correspondence terms
    draws = {}
    for seed, n in need_draws.items():
        rows, out, err, rc = run_h(exe, ["--dump-draws", str(n), "--seed", str(seed)])
        draws[seed] = rows[0]["draws"]

    def cfg_term(cf):
        return "{| freq := %d; casf := %d; pick := %d; tick := %d; slpt := %d |}" % (cf["freq"], cf["cas"], cf["pick"], cf["tick"], cf["slpt"])

    def add_term(c, tokens, ops, mode, t0, d, rc0, inj0, row, what):
        dl = draws[c["cfg"]["seed"]][:(row["rand_end"] if row else sum(1 for t in tokens if t[0] == "D")) + 8]
        terms.append("obs_N %s [%s] %d %d %d %d %d 200000 %s" % (
            cfg_term(c["cfg"]), "; ".join(str(x) for x in dl), mode, t0, d, rc0, inj0, to_coq(ops, draws[c["cfg"]["seed"]])))
        metas.append(dict(case=c, tokens=tokens, row=row, what=what))

    for c in cases:
        if "tokens" not in c:
            continue
        toks = c["tokens"]
        row = None if c.get("crashed") else c["rows"][0]
        ib = start_index(toks)
        d = int(toks[ib][1:])
        if c["place"] == "driver":
            # the run of the model starts inside the driver right after SetSeed: the start-up pick is checked here
            pre = toks[:ib]
            m = re.match(r"R(\d+)@(\d+)$", pre[-1]) if pre else None
            if len(pre) != 3 or pre[0] != "P1" or pre[1] != "D%d" % (2 * c["cfg"]["pick"]) or not m or int(m.group(1)) != d:
                ck.broken.append(dict(name="correspondence Sched.run vs implementation on %s" % c["name"],
                                      detail="unexpected start-up tokens %s\n%s" % (pre, cmdline(exe, c["args"]))))
                continue
            add_term(c, toks[ib:], c["ops"], 1, int(m.group(2)), d, 0, 0, row, "full")
        else:
            add_term(c, toks, c["ops"], 0, row["time0"] if row else 0, d, 0, 0, row, "full")
    for c, cp, row, rt in restored_for_model[: (20 if quick else 200)]:
        # the restored run against the model started at the quiescent state (count, state) with the rest of the program
        ib = start_index(rt)
        d = int(rt[ib][1:])
        m = re.match(r"R(\d+)@(\d+)$", rt[ib - 1])
        ops = after_phase(c["ops"], cp["phase"])
        add_term(c, rt[ib:], ops, 1, int(m.group(2)), d, cp["count"], cp["state"], row, "restored@%d" % cp["phase"])

    header = ("From Coq Require Import List NArith. Import ListNotations.\n"
              "From YV Require Import model.Sched model.SchedObs.\nOpen Scope N_scope.\n")
    res, logs = coq_eval_N(header, terms, "c17") if terms else ([], [])
    validated, nontriv, bad = 0, set(), []
    n_yield = n_timeout = n_weakfail = n_parked = 0
    for meta, r in zip(metas, res):
        c, toks, row = meta["case"], meta["tokens"], meta["row"]
        label = "%s (%s)" % (c["name"], meta["what"])
        if r is None:
            bad.append((label, c, "model evaluation failed"))
            continue
        mt, trailer = split_model(r)
        try:
            it = impl_numbers(toks)
        except ValueError as e:
            bad.append((label, c, str(e)))
            continue
        if meta["what"].startswith("restored"):
            # the skipped markers of the prefix are printed by the restored run too, before the restored one
            ph = int(meta["what"].split("@")[1])
            skip = 0
            k = 0
            for t in toks:
                if t.startswith("|") and int(t[1:].split(":")[0]) < ph:
                    skip += 1
            # drop the first `skip` markers from the implementation numbers
            out, seen = [], 0
            i = 0
            while i < len(it):
                if it[i] == 9 and seen < skip:
                    seen += 1
                    i += 3
                    continue
                out.append(it[i])
                i += 1
            it = out
        if mt != it:
            d = first_diff(mt, it)
            bad.append((label, c, "model predicts %s, implementation showed %s (number %d of %d/%d)" % (
                mt[max(0, d - 8):d + 6], it[max(0, d - 8):d + 6], d, len(mt), len(it))))
            continue
        if row is None:
            # the implementation crashed in Scheduler::GetNext on an empty queue: the model must say so at this token
            if trailer["crashed"] != 1:
                bad.append((label, c, "implementation crashed, the model does not predict a crash"))
            else:
                validated += 1
                crash_predicted += 1
            continue
        if trailer["finished"] != 1 or trailer["crashed"] != 0:
            bad.append((label, c, "model did not finish (finished=%d crashed=%d)" % (trailer["finished"], trailer["crashed"])))
            continue
        if (trailer["live"] == 0) != bool(row["finished"]):
            bad.append((label, c, "model ends with %d parked fibers, implementation finished=%s" % (trailer["live"], row["finished"])))
            continue
        if trailer["rc"] != row["rand_end"] or trailer["inj"] != row["inj_end"] or trailer["now"] != row["time_end"]:
            bad.append((label, c, "final (random count, injector state, time): model (%d, %d, %d), implementation (%d, %d, %d)" % (
                trailer["rc"], trailer["inj"], trailer["now"], row["rand_end"], row["inj_end"], row["time_end"])))
            continue
        validated += 1
        if nontrivial_tokens(toks):
            nontriv.add(label + "|" + " ".join(canon_segment(toks, 0)))
        n_yield += row["injected"]
        n_timeout += sum(1 for t in toks if re.match(r"t\d+:1$", t))
        n_weakfail += sum(1 for t in toks if re.match(r"c\d+:0$", t))
        n_parked += 0 if row["finished"] else 1
    for label, c, why in bad[:10]:
        ck.broken.append(dict(name="correspondence Sched.run vs implementation on %s" % label,
                              detail="%s\nprogram: %s\n%s" % (why, to_text(c["ops"]), cmdline(exe, c["args"]))))
    if not terms:
        ck.broken.append(dict(name="correspondence Sched.run vs implementation", detail="no traces"))

    # ---------------------------------------------------------------- B. real clients: oracle only
    clients = ["pool", "strand", "timed", "coro", "until", "rand", "mix"]
    n_cl = 12 if quick else 150
    ccfgs = configs(rng, n_cl, loops=True)
    cl_cases = [dict(client=clients[i % len(clients)], size=rng.randint(0, 3), cfg=ccfgs[i],
                     place=rng.choice(["driver", "main"]), same_sched=rng.random() < 0.3) for i in range(n_cl)]

    def run_client(c):
        base = ["--client", c["client"], "--size", str(c["size"]), "--place", c["place"]] + cfg_args(c["cfg"])
        pk = 1 + (c["cfg"]["seed"] * 17 + c["size"]) % 100000
        a2 = base + ["--runs", "2", "--perturb", str(pk), "--perturb-from", "1"] + (["--same-sched"] if c["same_sched"] else [])
        rows, out, err, rc = run_h(exe, a2)
        plain = base
        base = base + ["--perturb", str(pk + 7)]
        rows_f, out_f, err_f, rc_f = run_h(exe, base)
        c.update(base=base, a2=a2, rows=rows, rc=rc, rows_f=rows_f, rc_f=rc_f, err=err or out)
        rest = []
        if rc == 0 and len(rows) == 2:
            cps = rows[0]["checkpoints"][1:-1]
            if quick:
                cps = cps[:2]
            for cp in cps:
                a3 = plain + ["--rplace", "driver", "--from", str(cp["phase"]), "--count", str(cp["count"]), "--state", str(cp["state"]),
                              "--perturb", str(pk + 13 + cp["phase"])]
                r3, o3, e3, rc3 = run_h(exe, a3)
                rest.append((cp, a3, r3, rc3, e3 or o3))
        c["restored"] = rest
        return c

    with concurrent.futures.ThreadPoolExecutor(max_workers=vlib.NPROC) as ex:
        cl_cases = list(ex.map(run_client, cl_cases))
    client_runs = 0
    client_distinct = set()
    for c in cl_cases:
        label = "client %s size %d" % (c["client"], c["size"])
        if c["rc"] != 0 or len(c["rows"]) != 2 or c["rc_f"] != 0 or len(c["rows_f"]) != 1:
            add_hit("%s: harness crashed (rc=%s/%s) %s" % (label, c["rc"], c["rc_f"], c["err"][-400:]), "crash",
                    dict(harness="h_c17", commands=[cmdline(exe, c["a2"])]))
            continue
        client_runs += 3
        t0, t1, tf = [r["trace"].split() for r in (c["rows"][0], c["rows"][1], c["rows_f"][0])]
        cmd = cmdline(exe, c["a2"])
        for r in (c["rows"][0], c["rows"][1], c["rows_f"][0]):
            if r["asserts"] or not r["finished"] or "!" in r["trace"].replace("!ASSERT", ""):
                pass
        if compare_pair("(a) second run in the same process after SetSeed + SetInjectorState(0)", "rerun-same-process",
                        label, t0, 0, t1, 0, [cmd], base_a=c["rows"][0]["time0"], base_b=c["rows"][1]["time0"]):
            oracle_pairs["same_process"] += 1
        if compare_pair("(b) run in a fresh process", "rerun-fresh-process", label, t0, 0, tf, 0, [cmd, cmdline(exe, c["base"])]):
            oracle_pairs["fresh_process"] += 1
        for cp, a3, r3, rc3, e3 in c["restored"]:
            if rc3 != 0 or len(r3) != 1:
                add_hit("%s: restored run crashed (rc=%s) %s" % (label, rc3, e3[-300:]), "crash", dict(harness="h_c17", commands=[cmdline(exe, a3)]))
                continue
            client_runs += 1
            rt = r3[0]["trace"].split()
            mark = "|%d:" % cp["phase"]
            i_full = next(i for i, t in enumerate(t0) if t.startswith(mark))
            i_res = next(i for i, t in enumerate(rt) if t.startswith(mark))
            if compare_pair("(c) restored from (count=%d, state=%d) recorded at phase %d" % (cp["count"], cp["state"], cp["phase"]),
                            "restore-absolute-count", label, t0, i_full, rt, i_res, [cmdline(exe, c["a2"]), cmdline(exe, a3)]):
                oracle_pairs["restored"] += 1
        if nontrivial_tokens(t0):
            client_distinct.add(" ".join(canon_segment(t0, 0)))
    evaluations += client_runs

    # the most telling failing input first: a restored run that diverges, then reruns, then the rest
    def rank(h):
        k = (h.get("replay") or {}).get("kind", "")
        return 0 if k.startswith("(c)") else 1 if k.startswith(("(a)", "(b)")) else 2
    hits.sort(key=rank)
    ck.cov["evaluations"] = evaluations
    ck.cov["traces_validated_against_impl"] = validated
    ck.cov["model_cases"] = len(terms)
    ck.cov["distinct_nontrivial"] = len(nontriv) + len(client_distinct)
    ck.cov["oracle_pairs_equal"] = oracle_pairs
    ck.cov["observed"] = dict(injected_yields=n_yield, timed_out_waits=n_timeout, spurious_cas_failures=n_weakfail,
                              runs_ending_with_parked_fibers=n_parked, library_crashes_predicted_by_model=crash_predicted,
                              client_runs=client_runs,
                              distinct_client_traces=len(client_distinct))
    def has_common(ops):
        return any(o[0] in "SUT" or (o[0] == "f" and has_common(o[2])) for o in ops)
    ck.cov["observed"]["programs_with_fibers_sleeping_until_one_common_deadline"] = sum(1 for c in cases if has_common(c["ops"]))
    def has_dev(ops):
        return any(o[0] in "rRG" or (o[0] == "f" and has_dev(o[2])) for o in ops)
    ck.cov["observed"]["programs_drawing_from_random_device"] = sum(1 for c in cases if has_dev(c["ops"]))
    ck.cov["random_device"] = ("predicted, not only observed: every value a DSL client draws from yaclib_std::random_device is "
                               "compared with mt19937_64(seed) through the model (CLogVal + the steering it causes); the real "
                               "client `rand` (and `mix`) is compared in the three differentials only")
    ck.cov["allocation_history_perturbed"] = ("yes: --perturb <k> before the second in-process run, in the fresh process and in every "
                                              "restored run (DSL programs and real clients); the original run is unperturbed")
    ck.cov["exhaustive"] = False
    ck.cov["rule"] = ("the library's own seeded engine takes every decision (nothing is explored); inputs are (program, seed, "
                      "fault frequency, CAS-failure frequency, pick width, tick length, sleep time) tuples drawn from ck.seed: "
                      "6 hand-written + random DSL programs (1-3 phases, up to ~12 fibers: atomics, weak CAS, yields, sleeps, mutex "
                      "sections, condition-variable waits/timed waits/notifies, bare FiberQueue waits, nested spawn/join/detach) "
                      "and 7 real clients (FairThreadPool jobs, Strand, WaitFor + condition_variable::wait_for, coroutines with "
                      "yaclib::Mutex, threads sleeping until one common deadline, a randomised workload steered by yaclib_std::random_device, mix); sleep_until / wait_until on a common absolute "
                      "deadline (epoch + D) in the DSL; perturbed allocation history in all second/fresh/restored runs; each run twice in a process, in a fresh process and restored from every recorded "
                      "pair; distinct non-trivial = distinct canonical token sequences with >= 3 resumes of >= 2 fibers")
    ck.cov["samples"] = [dict(program=to_text(m["case"]["ops"]), config=m["case"]["cfg"], place=m["case"]["place"],
                              what=m["what"], trace=" ".join(m["tokens"][:60]))
                         for m in metas[:2] + metas[n_special:n_special + 2]]


def replay(ck, path):
    d = json.load(open(path))
    rp = d.get("replay") or {}
    cmds = rp.get("commands")
    if not cmds:
        print("nothing to replay: %s" % json.dumps(d)[:2000])
        return 0
    exe, b = vlib.compile_harness("F", [HARNESS], "c17")
    outs = []
    for cmd in cmds:
        # the recorded executable path may belong to another tree: substitute the current build
        parts = cmd.split(" ", 1)
        r = subprocess.run(exe + " " + parts[1], shell=True, stdout=subprocess.PIPE, stderr=subprocess.STDOUT, text=True, timeout=300)
        print("$ h_c17 " + parts[1])
        rows = [json.loads(l) for l in r.stdout.split("\n") if l.startswith("{")]
        for row in rows:
            print("  run %d: %d tokens, finished=%s rand_end=%s checkpoints=%s" % (
                row["run"], len(row["trace"].split()), row["finished"], row["rand_end"], row["checkpoints"]))
        outs.append(rows)
    print("what failed: %s" % d.get("what"))
    print("first differing index: %s   left: %s   right: %s" % (rp.get("first_differing_index"), rp.get("left"), rp.get("right")))
    # re-evaluate the comparison
    bad = 1
    try:
        if rp.get("kind", "").startswith("(a)"):
            a, bb = outs[0][0]["trace"].split(), outs[0][1]["trace"].split()
            bad = 1 if first_diff(canon_segment(a, 0), canon_segment(bb, 0)) >= 0 else 0
        elif rp.get("kind", "").startswith("(b)"):
            a, bb = outs[0][0]["trace"].split(), outs[1][0]["trace"].split()
            bad = 1 if first_diff(canon_segment(a, 0), canon_segment(bb, 0)) >= 0 else 0
        elif rp.get("kind", "").startswith("(n)"):
            ends = [r["rand_end"] for r in outs[0]] + [r["rand_end"] for r in outs[1]]
            print("final random counts: %s" % ends)
            bad = 0 if len(set(ends)) == 1 else 1
        elif rp.get("kind", "").startswith("(c)"):
            ph = int(re.search(r"phase (\d+)", rp["kind"]).group(1))
            a, bb = outs[0][0]["trace"].split(), outs[1][0]["trace"].split()
            ia = next(i for i, t in enumerate(a) if t.startswith("|%d:" % ph))
            ib = next(i for i, t in enumerate(bb) if t.startswith("|%d:" % ph))
            bad = 1 if first_diff(canon_segment(a, ia), canon_segment(bb, ib)) >= 0 else 0
    except Exception as e:
        print("replay comparison failed: %s" % e)
    print("still differs" if bad else "traces are identical now")
    return bad
