"""C06 — SharedFuture: every observer sees the one value once, never before it exists.
Proof: coq/props/Properties_C06.v (invariant of the Shared LTS: one fulfiller, any number of SharedFuture copies and
       callbacks, all schedules, all values); the readiness rule and the reference-count constants of the model are read
       from the source by checks/c06_translate.py (coq/gen/Gen_ready.v, Gen_shared_consts.v) and are proof obligations.
Tie:   harness/h_c06.cpp runs the real SharedFuture/SharedPromise code (FIBER backend) on generated programs - one
       fulfilling fiber, 1-4 observer fibers each with an op list on its own copy - exhaustively (DFS) for the small
       ones, preemption-bounded DFS and seeded random walks for the larger ones; every distinct trace is mapped
       (checks/c06_map.py) to model events and replayed through Shared.run inside Coq: the model must accept every event
       with the observed value and predict the observed values / callback invocations / readiness answers.
Oracle (from the property text) runs inside the harness on every execution."""
import concurrent.futures, json, os, random, re
import vlib, runner
from checks import c06_map as M
from checks import c06_translate as T

OPS = "rpTwgmiedsukKacxz"          # see harness/h_c06.cpp
UOPS = "UVWY"                      # a continuation of another future returns this SharedFuture and the library flattens it
ALL = OPS + UOPS
TERMINAL = "mz"                    # nothing may follow (Get()&& consumes the future, z destroys the copy)
FULFIL = ["set", "err", "drop", "split", "nofut", "thrd", "thrs"]   # thrd/thrs: the first Set throws, see h_c06.cpp
HARNESS = os.path.join(vlib.VERIF, "harness", "h_c06.cpp")


def op_lists(n, alphabet=OPS):
    """all valid op lists of length n"""
    out = [""]
    for _ in range(n):
        out = [p + o for p in out for o in alphabet if not (p and p[-1] in TERMINAL)]
    return [p for p in out if len(p) == n]


def rand_ops(rng, n):
    s = ""
    for i in range(n):
        o = rng.choice(ALL if i == n - 1 else [x for x in ALL if x not in TERMINAL])
        s += o
    return s


def suites(tier, seed):
    """-> list of dict(name, args, plans, exhaustive_expected)"""
    rng = random.Random(seed * 7919 + 17)
    thorough = tier == "thorough"
    singles = op_lists(1, ALL)
    pairs = op_lists(2)
    # the flattened-SharedFuture family next to everything else (the value must stay intact for whoever reads next)
    upairs = ["U" + o for o in ALL] + [o + "U" for o in OPS if o not in TERMINAL] + ["W" + o for o in ALL] + \
             ["VU", "YU", "Yp", "Ym", "Vp", "VT"]
    s = []
    # E1: one observer, one op, every fulfilment kind - exhaustive, with one spurious weak-CAS failure
    s.append(dict(name="E1 1+1 x 1 op, all kinds of fulfilment (exhaustive, weak 1)", weak=1, pb=None, mode="dfs",
                  plans=["%s/%s" % (f, o) for f in FULFIL for o in singles] if thorough else
                        ["set/%s" % o for o in singles], exhaustive=True))
    if not thorough:
        s.append(dict(name="E1b 1+1 x 1 op, other kinds of fulfilment (exhaustive)", weak=0, pb=None, mode="dfs",
                      plans=["%s/%s" % (f, o) for f in FULFIL[1:] for o in singles], exhaustive=True))
    # E2: one observer, two ops - exhaustive
    e2 = (list(pairs) + upairs) if thorough else \
         (["ip", "im", "km", "ag", "Up", "UU", "Ug", "UT", "Um", "WU", "pU"] + rng.sample(pairs, 10))
    s.append(dict(name="E2 1+1 x 2 ops (exhaustive)", weak=0, pb=None, mode="dfs",
                  plans=sorted(set("set/%s" % p for p in e2)), exhaustive=True))
    # E3: two observers, one op each - exhaustive (a bystander sampling Ready()/Touch() next to an attach, ...)
    e3 = ["i.r"] if not thorough else ["i.r", "i.p", "k.z", "m.z", "g.i", "i.i", "s.k"]
    s.append(dict(name="E3 1+2 x 1 op (exhaustive)", weak=0, pb=None, mode="dfs", maxexec=3000000,
                  plans=["set/%s" % p for p in e3], exhaustive=True))
    # B: two observers, up to two ops each - preemption-bounded DFS
    nb = 44 if thorough else 32
    pl = ["set/i.p", "set/ip.p", "set/k.m", "set/a.p", "set/km.p", "set/i.i", "set/s.k",
          "thrd/i.p", "thrd/w.k", "thrs/g.a", "thrs/m.U", "thrd/e.r",
          "set/U.p", "set/U.m", "set/W.p", "set/W.m", "set/Y.p", "set/UU.p"]
    while len(pl) < nb:
        f = rng.choice(FULFIL)
        a = rand_ops(rng, rng.choice([1, 2]))
        b = rand_ops(rng, rng.choice([1, 2]))
        pl.append("%s/%s.%s" % (f, a, b))
    s.append(dict(name="B 1+2 x <=2 ops (DFS, preemption bound %d)" % (3 if thorough else 2), weak=0,
                  pb=3 if thorough else 2, mode="dfs", plans=sorted(set(pl)), exhaustive=False))
    # R: three and four observers, up to four ops each, one spurious weak-CAS failure - seeded random walks
    nr = 120 if thorough else 24
    pl = []
    while len(pl) < nr:
        f = rng.choice(FULFIL)
        k = rng.choice([3, 4])
        obs = [rand_ops(rng, rng.choice([1, 2, 3, 4])) for _ in range(k)]
        if rng.random() < 0.5:
            obs[rng.randrange(k)] = rng.choice(["p", "pp", "rp", "pT"])      # the bystander idiom
        pl.append("%s/%s" % (f, ".".join(obs)))
    s.append(dict(name="R 1+3..4 x <=4 ops (seeded random, weak 1)", weak=1, pb=None, mode="random",
                  maxexec=600 if thorough else 150, plans=sorted(set(pl)), exhaustive=False, seed=seed))
    # C: a combinator (WhenAny / WhenAll over this copy and an auxiliary SharedFuture of the same type, or over two copies of
    # this state) attached next to the other observers.  ORACLE ONLY: the combinator consumes its input through
    # SharedCore::Retire (a third move decision: GetRef()==1 ? move : copy, then DecRef; WhenAll defers it to the
    # combinator's destruction), which Shared.v does not have; what is checked is the property text on the plain
    # observers next to it (exactly once, the value, no moved-from read, no lost wake-up) - the combinator's own
    # semantics are C09's / C10's subject.
    first = "iekgmasUwpK" if not thorough else ALL
    cpl = ["%s/%s" % (f, c) for c in "ABLD" for f in (FULFIL if thorough else ["set", "err"])]
    cpl += ["set/%s%s" % (x, c) for x in first for c in "ABL" if x not in TERMINAL]
    cpl += ["set/%s%s" % (c, x) for c in "AL" for x in ("igmkpU" if not thorough else ALL)]
    s.append(dict(name="C 1+1, a combinator next to the observer's other op (exhaustive, oracle only)", weak=0, pb=None,
                  mode="dfs", plans=sorted(set(cpl)), exhaustive=False, oracle_only=True, timeout=400, maxexec=400000))
    dpl = ["set/%sD" % x for x in ("igks" if not thorough else "iedsukKagwpU")] + ["set/Di", "set/Dg"]
    dpl += ["set/%s.%s" % (a, b) for a, b in (("i", "A"), ("g", "B"), ("s", "L"), ("k", "D"), ("m", "A"), ("a", "A"),
                                                ("iA", "p"), ("A", "A"), ("w", "L"), ("U", "A"))]
    if thorough:
        dpl += ["%s/%s.%s" % (rng.choice(FULFIL), rand_ops(rng, 2), rng.choice("ABLD")) for _ in range(16)]
    s.append(dict(name="C2 1+1..2, combinators incl. over two copies of this state (DFS, preemption bound %d, oracle only)" %
                       (3 if thorough else 2), weak=0, pb=3 if thorough else 2, mode="dfs", plans=sorted(set(dpl)),
                  exhaustive=False, oracle_only=True, timeout=400, maxexec=400000))
    # every DFS suite a second time with the switch offered right AFTER an operation instead of before it: the plain code
    # that follows an operation (e.g. a store into a node that was just published) then is a separate step; the random
    # suite offers the switch at both places
    for su in list(s):
        if su["mode"] == "dfs":
            s.append(dict(su, name=su["name"] + " [switch after the operation]", yield_at="after"))
        else:
            su["yield_at"] = "both"
    return s


def harness_args(su, plans):
    a = ["--mode", su["mode"], "--weak", str(su["weak"]), "--param", "plans=" + ";".join(plans)]
    if su.get("pb") is not None:
        a += ["--pb", str(su["pb"])]
    if su.get("yield_at"):
        a += ["--yield-at", su["yield_at"]]
    if su.get("maxexec"):
        a += ["--max", str(su["maxexec"])]
    if su["mode"] == "random":
        a += ["--seed", str(su.get("seed", 1))]
    return a


def run_suite(exe, su, workers=8):
    """run the plans of a suite in parallel shards -> (rows, problems)"""
    plans = su["plans"]
    nsh = max(1, min(workers, len(plans)))
    shards = [plans[i::nsh] for i in range(nsh)]
    rows, problems = [], []

    def one(sh):
        return runner.run_harness(exe, harness_args(su, sh), timeout=su.get("timeout", 1500))

    with concurrent.futures.ThreadPoolExecutor(max_workers=workers) as ex:
        for (r, out, err, rc), sh in zip(ex.map(one, shards), shards):
            rows += r
            while rc != 0:
                m = re.search(r"CRASH signal=(\d+) choices=([\d,]*)", out + err)
                done = set(x["scenario"] for x in r if "mode" in x)
                culprit = next((p for p in sh if p not in done), sh[0])
                problems.append(dict(rc=rc, text=(err or out)[-600:], choices=m.group(2).rstrip(",") if m else None,
                                     scenario=culprit))
                sh = [p for p in sh if p not in done and p != culprit]     # the plans the crash took with it
                if not sh:
                    break
                r, out, err, rc = one(sh)
                rows += r
    return rows, problems


def nontrivial(trace):
    """the fulfiller's operations on the state and an observer's really interleave: an operation of one of them on the
    word or the counter lies strictly between the first and the last such operation of the other"""
    ops = [t.split(":")[0] for t in trace.split(";") if "@" in t and not t.startswith("main:")]
    thr = set(ops)
    if "F" not in thr:
        return False
    fi = [i for i, x in enumerate(ops) if x == "F"]
    for o in thr - {"F"}:
        oi = [i for i, x in enumerate(ops) if x == o]
        if any(fi[0] < i < fi[-1] for i in oi) or any(oi[0] < i < oi[-1] for i in fi):
            return True
    return False


def coq_eval(terms, name, shard=500):
    header = "From Coq Require Import List. Import ListNotations.\nFrom YV Require Import model.Shared model.SharedObs.\n"
    return vlib.coq_eval_cases(header, terms, name, shard=shard, timeout=1200)


def main(ck):
    ck.assumptions = [
        "FIBER backend: sequentially consistent, switches only at the wrapped yaclib_std operations (memory-order effects are C04's subject)",
        "the model is Shared.v: the callback word, the reference counter, the result slot and the control flow around them; "
        "Result storage, virtual dispatch, executors, the Wait event's mutex/condvar and the coroutine machinery are exercised, not modelled",
        "the fulfiller is one thread (SharedPromise is move-only); each SharedFuture copy is used by one thread at a time "
        "(a const reference shared between threads behaves as a copy that is never destroyed and is not modelled separately); "
        "a future is not used after Get()&&/Touch()&& except to destroy it",
        "When*/Join on SharedFutures attach through the same SetCallback and read through const& (kind KInl of the model); "
        "their own counters are C09/C10's subject and are not exercised here",
        "a SharedFuture returned by a continuation of another future and flattened by the library (ops U V W Y) is not a new model "
        "event: it is a copy (the returned handle), an attach of a const-reading callback through that copy, the read, and the "
        "release of the copy by whoever ran the read - the same composition as co_await's awaiter; the harness attaches the outer "
        "step's continuation before the outer source is fulfilled so that the release is followed by that continuation's marker",
        "a Set whose Store throws (the value's copy constructor throws while the Result is constructed in the state; fulfilment kinds "
        "thrd / thrs) is no event of Shared.v: nothing is stored, nothing is published, the slot stays Unset; the ~SharedPromise or the "
        "second Set that follows are the ordinary ESet / EXchg / EDecF events",
        "combinators over a SharedFuture (ops A B L D: WhenAny / WhenAll over the observer's copy and an auxiliary SharedFuture of the "
        "same type, or over two copies of the state) are exercised next to the other observers and judged by the harness oracle "
        "only (coverage.oracle_only_traces): they consume through SharedCore::Retire (move iff GetRef()==1, then DecRef; WhenAll "
        "at the combinator's destruction), which Shared.v does not model; their own semantics are C09's / C10's subject",
        "h_c06 offers a fiber switch only before operations on the callback word and the reference counter (and where a fiber blocks): "
        "a switch before an un-observed operation only moves un-observed work",
        "tracer reads the values through the YACLIB_VERIF after-hook (first 8 bytes of the atomic object)",
    ]
    ck.cov["trusted_base"] = [
        "Coq 8.16.1 kernel + vm_compute (used for replaying traces and in Example / refutation witnesses)",
        "Print Assumptions of every theorem in Properties_C06.v: Closed under the global context (no axioms)",
        "checks/c06_translate.py (lexical reading of BaseCore::Empty, the reference-count constants, the DecRef placement) "
        "and checks/c06_map.py (syntactic trace-to-event mapping); harness/h_c06.cpp oracle",
        "YACLIB_VERIF hooks in the fault layer; FIBER scheduler and fiber atomics (C17-C19 are about those)",
    ]
    # ---- the model's source-dependent part
    gen = T.generate(vlib.REPO, vlib.COQ)
    ck.cov["source_facts"] = dict(ready_is_result=gen["ready_is_result"], recognised=gen["recognised"], **gen["consts"])
    ck.prove("props/Properties_C06.v", ["model/SharedObs.vo"])
    # ---- implementation side
    exe, b = vlib.compile_harness("F", [HARNESS], "c06")
    su_list = suites(ck.tier, ck.seed)
    all_traces, heads = [], []
    per_suite, crashes = [], []
    oracle_only_traces = 0
    exhaustive_ok = True
    for su in su_list:
        rows, problems = run_suite(exe, su)
        hs = [r for r in rows if "mode" in r]
        ts = [r for r in rows if "trace" in r]
        for t in ts:
            t["_suite"] = su
        heads += hs
        if su.get("oracle_only"):
            oracle_only_traces += len(ts)
            all_traces += [t for t in ts if t["fail"]]       # judged by the harness oracle only, never mapped
        else:
            all_traces += ts
        ex = bool(hs) and all(h["exhaustive"] for h in hs) and len(hs) == len(su["plans"])
        if su["exhaustive"] and not ex:
            exhaustive_ok = False
            ck.notes.append("suite %s: not exhaustive for %s" % (su["name"], [h["scenario"] for h in hs if not h["exhaustive"]][:5]))
        per_suite.append(dict(suite=su["name"], plans=len(su["plans"]), executions=sum(h["executions"] for h in hs),
                              distinct_traces=len(ts), exhaustive=ex if su["exhaustive"] else False,
                              cut=sum(h["cut"] for h in hs)))
        for p in problems:
            crashes.append(dict(what="harness crashed on %s (rc=%d) %s" % (p["scenario"], p["rc"], p["text"]),
                                key="crash:" + p["scenario"].split("/")[0],
                                replay=dict(harness="h_c06", scenario=p["scenario"], choices=p["choices"],
                                            weak=su["weak"], pb=su.get("pb"), yield_at=su.get("yield_at"))))
    ck.cov["evaluations"] = sum(h["executions"] for h in heads)
    ck.cov["scenarios"] = len(heads)
    ck.cov["suites"] = per_suite
    ck.cov["oracle_only_traces"] = oracle_only_traces
    ck.cov["exhaustive"] = exhaustive_ok and any(p["exhaustive"] for p in per_suite)
    # ---- oracle verdicts
    seen_keys = set()
    fails = [t for t in all_traces if t["fail"]]
    def simplicity(t):
        obs = t["scenario"].split("/")[1].split(".")
        bystander = 0 if ("p" in obs and len(obs) == 2) else 1      # a copy that only samples Ready()/Touch()
        return (bystander, len(t["scenario"]), len(t["choices"]))
    fails.sort(key=simplicity)
    for t in fails:
        key = re.sub(r"\d+", "N", t["fail"])[:60]
        ck.hits.append(dict(what="%s: %s" % (t["scenario"], t["fail"]), key=key,
                            replay=dict(harness="h_c06", scenario=t["scenario"], choices=t["choices"], trace=t["trace"],
                                        weak=t["_suite"]["weak"], pb=t["_suite"].get("pb"),
                                        yield_at=t["_suite"].get("yield_at"))))
        seen_keys.add(key)
    ck.hits += crashes
    # ---- correspondence: replay every distinct trace through the model inside Coq
    terms, metas = [], []
    for t in all_traces:
        if t["fail"]:
            continue
        try:
            m = M.to_events(t["trace"])
        except M.MapError as e:
            ck.gen_obligation("correspondence Shared (trace vocabulary) on %s" % t["scenario"], False,
                              "%s\ntrace: %s\nchoices: %s" % (e, t["trace"], t["choices"]))
            continue
        terms.append("obs_nat %s [%s]" % ("true" if m["wf"] else "false", "; ".join(m["events"])))
        metas.append((t, m))
    res, logs = coq_eval(terms, "c06") if terms else ([], [])
    validated, nontriv, bad = 0, 0, []
    spurious = casfail = 0
    for (t, m), r in zip(metas, res):
        if r is None:
            bad.append((t, "model evaluation failed"))
            continue
        why = M.compare(m, M.decode(r))
        if why:
            bad.append((t, why))
        else:
            validated += 1
            spurious += 1 if m["spurious"] else 0
            casfail += 1 if m["cas_fail"] else 0
            if nontrivial(t["trace"]):
                nontriv += 1
    ck.cov["traces_validated_against_impl"] = validated
    ck.cov["distinct_traces"] = len(all_traces)
    ck.cov["distinct_nontrivial"] = nontriv
    ck.cov["traces_with_spurious_cas_failure"] = spurious
    ck.cov["traces_with_real_cas_failure"] = casfail
    ck.cov["rule"] = ("generated programs: one fulfilling fiber (SharedPromise::Set value / error, ~SharedPromise, a first Set that throws from the value's copy constructor followed by ~SharedPromise or a second Set, a unique Promise through "
                      "Split, MakeSharedPromise + Split(promise)) and 1-4 observer fibers, each running an op list on its own SharedFuture copy "
                      "(Ready, Ready+Touch const&, Ready+Touch&&, Wait, Get const&, Get&&, ThenInline, Then(e) inline-like and deferred, "
                      "SubscribeInline, Subscribe(e), Share, Connect to a SharedPromise, co_await, copy, copy+destroy, destroy, and a continuation of another "
                      "(unique) future returning the SharedFuture so that the library flattens it: ThenInline / Then(e) by the observer, or owned by "
                      "the callback and run by the fulfilling fiber before / after the shared Set). "
                      "Suites E1-E3: exhaustive DFS over every scheduling decision offered before an operation on the callback word or the "
                      "reference counter (and choice of next fiber, of notified waiter, of a spurious weak-CAS failure where stated); "
                      "B: the same DFS with a preemption bound; R: seeded random walks.  Traces are deduplicated per program by their full "
                      "sequence of operations and observations; non-trivial = an operation of the fulfiller on the word or the counter lies "
                      "strictly between the first and last such operation of an observer, or vice versa")
    pick = {}
    for t in all_traces:
        pick.setdefault(t["_suite"]["name"][:2], t)
    ck.cov["samples"] = [dict(scenario=t["scenario"], trace=t["trace"], choices=t["choices"], executions=t["count"])
                         for t in list(pick.values())[:5]]
    for t, why in bad[:10]:
        ck.broken.append(dict(name="correspondence Shared.run vs implementation on %s" % t["scenario"],
                              detail="%s\ntrace: %s\nchoices: %s (weak %s, pb %s)" %
                                     (why, t["trace"], t["choices"], t["_suite"]["weak"], t["_suite"].get("pb"))))
    if len(bad) > 10:
        ck.notes.append("%d traces disagree with the model in total" % len(bad))
    if not all_traces:
        ck.broken.append(dict(name="correspondence Shared.run vs implementation", detail="harness produced no traces"))


def replay(ck, path):
    d = json.load(open(path))
    rp = d.get("replay") or {}
    if not rp.get("scenario") or rp.get("choices") is None:
        print("nothing to replay: %s" % json.dumps(d)[:2000])
        return 0
    exe, b = vlib.compile_harness("F", [HARNESS], "c06")
    args = ["--mode", "replay", "--exact", rp["scenario"], "--choices", rp["choices"], "--param", "plans=" + rp["scenario"],
            "--weak", str(rp.get("weak") or 0)]
    if rp.get("pb") is not None:
        args += ["--pb", str(rp["pb"])]
    if rp.get("yield_at"):
        args += ["--yield-at", rp["yield_at"]]
    rows, out, err, rc = runner.run_harness(exe, args)
    print(out)
    bad = any(r.get("fail") for r in rows if "trace" in r)
    return 1 if bad or rc != 0 else 0
