"""Pipeline programs shared by C02 / C12 (and usable by C05 / C20): AST, wire and Gallina printers, catalogue of typed
cells (tools/gen_pipeline_table.py), enumeration and seeded sampling, building the table harness, running it in
parallel, evaluating the same programs with Pipe.core_run / seq_eval inside Coq.

AST (plain tuples / dicts):
  prog = {"src": src, "ops": [op, ...]}
  src  = ("ready", w, tv, res) | ("contract", w, tv, exec, late, res) | ("run", w, exec, fn)
       | ("prom", w, tv, exec, id, pb) | ("coro", w, tv, id, res)
  op   = ("then", attach, fn) | ("tofuture",) | ("onnull",)
  attach = "inline" | "inherit" | ("on", exec)            exec = "i" | "s" | "m0" | "m1" | "m2"
  fn   = {"id": n, "par": P, "ret": R, "beh": beh}        beh = ("throw"|"ret"|"resval"|"reserr"|"resexc", k) | ("async", prog)
                                                          | ("shared",)  (ret SI/SV, only inside a share case)
  share case = {"extra": n, "src": prog (a SharedFuture), "p1": prog, "p2": prog}: one shared source returned from
               callbacks of two successive pipelines and read directly afterwards
  res  = ("val", z) | ("unit",) | ("err", c) | ("exc", x)   pb = ("set", late, res) | ("throw", x)
  w in F O T S SO; tv: 0 = int, 1 = void.
"""
import concurrent.futures, fcntl, hashlib, json, os, random, re, subprocess, sys, time

sys.path.insert(0, os.path.join(os.path.dirname(os.path.dirname(os.path.abspath(__file__))), "tools"))
import vlib
import gen_pipeline_table as T

NSHARDS = 16

# ------------------------------------------------------------------------------------------------ printers

def wire_res(r):
    return "(%s)" % " ".join(str(x) for x in r)


def wire_fn(f):
    b = f["beh"]
    bs = "(async %s)" % wire(b[1]) if b[0] == "async" else "(shared)" if b[0] == "shared" else "(%s %d)" % (b[0], b[1])
    return "(fn %d %s %s %s)" % (f["id"], f["par"], f["ret"], bs)


def wire_src(s):
    k = s[0]
    tv = lambda t: "v" if t else "i"
    if k == "ready":
        return "(ready %s %s %s)" % (s[1], tv(s[2]), wire_res(s[3]))
    if k == "contract":
        return "(contract %s %s %s %d %s)" % (s[1], tv(s[2]), s[3], int(s[4]), wire_res(s[5]))
    if k == "run":
        return "(run %s %s %s)" % (s[1], s[2], wire_fn(s[3]))
    if k == "prom":
        pb = s[5]
        pbs = "(set %d %s)" % (int(pb[1]), wire_res(pb[2])) if pb[0] == "set" else "(throw %d)" % pb[1]
        return "(prom %s %s %s %d %s)" % (s[1], tv(s[2]), s[3], s[4], pbs)
    return "(coro %s %s %d %s)" % (s[1], tv(s[2]), s[3], wire_res(s[4]))


def wire_op(o):
    if o[0] == "then":
        a = o[1]
        return "(then %s %s)" % ("(on %s)" % a[1] if isinstance(a, tuple) else a, wire_fn(o[2]))
    return "(%s)" % o[0]


def wire(p):
    return "(" + " ".join([wire_src(p["src"])] + [wire_op(o) for o in p["ops"]]) + ")"


def gz(z):
    return str(z) if z >= 0 else "(%d)" % z


def g_res(r):
    return {"val": lambda: "(Val (VInt %s))" % gz(r[1]), "unit": lambda: "(Val VUnit)",
            "err": lambda: "(Err %s)" % gz(r[1]), "exc": lambda: "(Exc %s)" % gz(r[1])}[r[0]]()


def g_exec(e):
    return {"i": "XInline", "s": "XStopped"}.get(e) or "(XManual %d)" % int(e[1:])


G_PAR = {"R": "PResult", "V": "PValue", "E": "PError", "X": "PExc", "N": "PNone", "U": "PUnit", "A": "PAuto"}
G_W = {"F": "WF", "O": "WO", "T": "WT", "S": "WS", "SO": "WSO"}
G_AK = {"F": "KFuture", "O": "KFuture", "S": "KShared", "T": "KTask"}


def g_ty(tv):
    return "TVoid" if tv else "TInt"


def g_body(f):
    b = f["beh"]
    rtv = T.ret_ty(f["ret"])
    if b[0] == "throw":
        return "(hb (BThrow %s))" % gz(b[1])
    if b[0] == "ret":
        return "(hb BRetV)" if rtv else "(hb (BRetI %s))" % gz(b[1])
    if b[0] == "resval":
        return "(hb (BResVal %s %s))" % ("true" if rtv else "false", gz(b[1]))
    if b[0] == "reserr":
        return "(hb (BResErr %s))" % gz(b[1])
    if b[0] == "resexc":
        return "(hb (BResExc %s))" % gz(b[1])
    if b[0] == "shared":
        return "(hb (BAsync KShared h))"      # h: the bound variable of obs_share's pipeline functions
    return "(hb (BAsync %s %s))" % (G_AK[T.ret_akind(f["ret"])], gallina(b[1]))


def gallina(p):
    s = p["src"]
    k = s[0]
    if k == "ready":
        t = "(PReady %s %s %s)" % (G_W[s[1]], g_ty(s[2]), g_res(s[3]))
    elif k == "contract":
        t = "(PContract %s %s %s %s %s)" % (G_W[s[1]], g_ty(s[2]), g_exec(s[3]), "true" if s[4] else "false", g_res(s[5]))
    elif k == "run":
        f = s[3]
        t = "(PRun %s %s %d %s %s %s)" % (G_W[s[1]], g_exec(s[2]), f["id"], G_PAR[f["par"]], g_ty(T.ret_ty(f["ret"])),
                                         g_body(f))
    elif k == "prom":
        pb = s[5]
        pbs = "(PBSet %s %s)" % ("true" if pb[1] else "false", g_res(pb[2])) if pb[0] == "set" else "(PBThrow %s)" % gz(pb[1])
        t = "(PProm %s %s %s %d %s)" % (G_W[s[1]], g_ty(s[2]), g_exec(s[3]), s[4], pbs)
    else:
        t = "(PCoro %s %s %d %s)" % (G_W[s[1]], g_ty(s[2]), s[3], g_res(s[4]))
    for o in p["ops"]:
        if o[0] == "then":
            a, f = o[1], o[2]
            at = "(AOn %s)" % g_exec(a[1]) if isinstance(a, tuple) else {"inline": "AInline", "inherit": "AInherit"}[a]
            t = "(PThen %s %d %s %s %s %s)" % (t, f["id"], G_PAR[f["par"]], at, g_ty(T.ret_ty(f["ret"])), g_body(f))
        elif o[0] == "tofuture":
            t = "(PToFuture %s)" % t
        else:
            t = "(POnNull %s)" % t
    return t

def wire_share(c):
    return "(share %d %s %s %s)" % (c["extra"], wire(c["src"]), wire(c["p1"]), wire(c["p2"]))


def gallina_share(c):
    return "obs_share %s (fun h => %s) (fun h => %s)" % (gallina(c["src"]), gallina(c["p1"]), gallina(c["p2"]))


def number_share(c):
    """ids: source first, then the 1st pipeline, then the 2nd"""
    c = clone(c)
    nxt = 1
    for k in ("src", "p1", "p2"):
        nxt = number_next(c[k], nxt)
    return c

# ------------------------------------------------------------------------------------------------ typing helpers

def src_world(s):
    k = s[0]
    if k == "run":
        return (s[1], T.ret_ty(s[3]["ret"]))
    return (s[1], s[2])


def world(p):
    wk, tv = src_world(p["src"])
    for o in p["ops"]:
        if o[0] == "then":
            a = o[1]
            wk = T.then_world(wk, "on" if isinstance(a, tuple) else a)
            tv = T.ret_ty(o[2]["ret"])
        elif o[0] == "tofuture":
            wk = "F"
        else:
            wk = {"O": "F", "SO": "S"}[wk]
    return (wk, tv)


def number_next(p, start=1):
    """assign function ids in pre-order (source, then steps; inner programs right after their function); returns the
    next free id"""
    n = [start]

    def fn(f):
        f["id"] = n[0]
        n[0] += 1
        if f["beh"][0] == "async":
            prog(f["beh"][1])

    def prog(q):
        s = q["src"]
        if s[0] == "run":
            fn(s[3])
        elif s[0] == "prom":
            q["src"] = s[:4] + (n[0],) + s[5:]
            n[0] += 1
        elif s[0] == "coro":
            q["src"] = s[:3] + (n[0],) + s[4:]
            n[0] += 1
        for o in q["ops"]:
            if o[0] == "then":
                fn(o[2])
    prog(p)
    return n[0]


def number(p, start=1):
    number_next(p, start)
    return p


def clone(x):
    if isinstance(x, dict):
        return {k: clone(v) for k, v in x.items()}
    if isinstance(x, list):
        return [clone(v) for v in x]
    if isinstance(x, tuple):
        return tuple(clone(v) for v in x)
    return x


def fns(p, top_only=False):
    """all function specs of the program (pre-order)"""
    out = []
    s = p["src"]
    if s[0] == "run":
        out.append(s[3])
        if not top_only and s[3]["beh"][0] == "async":
            out += fns(s[3]["beh"][1])
    for o in p["ops"]:
        if o[0] == "then":
            out.append(o[2])
            if not top_only and o[2]["beh"][0] == "async":
                out += fns(o[2]["beh"][1])
    return out


def all_ids(p):
    """every function id of the program: source function / contract function / coroutine, steps, inner programs"""
    s = p["src"]
    out = []
    inner = []
    if s[0] == "run":
        out.append(s[3]["id"])
        inner.append(s[3])
    elif s[0] == "prom":
        out.append(s[4])
    elif s[0] == "coro":
        out.append(s[3])
    for o in p["ops"]:
        if o[0] == "then":
            out.append(o[2]["id"])
            inner.append(o[2])
    for f in inner:
        if f["beh"][0] == "async":
            out += all_ids(f["beh"][1])
    return out


def cells_of(p, acc=None):
    """table cells (template instantiations) the program uses, inner programs included"""
    acc = set() if acc is None else acc
    s = p["src"]
    wk, tv = src_world(s)
    if s[0] == "run":
        acc.add(("run", s[1], s[3]["par"], s[3]["ret"]))
        if s[3]["beh"][0] == "async":
            cells_of(s[3]["beh"][1], acc)
    for o in p["ops"]:
        if o[0] == "then":
            a = o[1]
            att = "on" if isinstance(a, tuple) else a
            acc.add(("then", wk, tv, o[2]["par"], o[2]["ret"], att))
            if o[2]["beh"][0] == "async":
                cells_of(o[2]["beh"][1], acc)
            wk, tv = T.then_world(wk, att), T.ret_ty(o[2]["ret"])
        elif o[0] == "tofuture":
            wk = "F"
        else:
            wk = {"O": "F", "SO": "S"}[wk]
    return acc


def inner_task_heads(p):
    """source kinds at the head of every Task returned from a callback"""
    out = []
    for f in fns(p):
        if f["beh"][0] == "async":
            q = f["beh"][1]
            if T.ret_akind(f["ret"]) == "T":
                out.append(q["src"][0])
    return out

# ------------------------------------------------------------------------------------------------ catalogue

VAL = {0: ("val", 1), 1: ("unit",)}
STATES = ["val", "err", "exc"]


def res_of(state, tv, k=0):
    return {"val": ("val", 1 + k) if not tv else ("unit",), "err": ("err", 3 + k), "exc": ("exc", 4 + k)}[state]


def mkfn(par, ret, beh):
    return {"id": 0, "par": par, "ret": ret, "beh": beh}


def plain_behs(ret):
    """behaviours of a non-async return class"""
    sh = T.ret_shape(ret)
    if sh == "plain":
        return [("ret", 5), ("throw", 7)]
    return [("resval", 6), ("reserr", 8), ("resexc", 9), ("throw", 7)]


_CACHE = {}


def inner_catalogue(kind, tv):
    """small programs whose final handle is of the kind a callback of return class kind/tv returns (cached: clone
    before modifying)"""
    if ("inner", kind, tv) not in _CACHE:
        _CACHE[("inner", kind, tv)] = _inner_catalogue(kind, tv)
    return _CACHE[("inner", kind, tv)]


def _inner_catalogue(kind, tv):
    out = []
    st = [res_of(s, tv) for s in STATES]
    N = mkfn("N", "V" if tv else "I", ("ret", 2))
    NT = mkfn("N", "V" if tv else "I", ("throw", 3))
    RR = mkfn("R", "RV" if tv else "RI", ("reserr", 4))
    if kind == "F":
        out += [{"src": ("ready", "F", tv, r), "ops": []} for r in st]
        out += [{"src": ("contract", "F", tv, "i", late, r), "ops": []} for late in (0, 1) for r in st[:2]]
        out += [{"src": ("run", "F", "i", clone(N)), "ops": []}, {"src": ("run", "O", "m1", clone(NT)), "ops": [("onnull",)]}]
        out += [{"src": ("prom", "F", tv, "i", 0, ("set", 1, st[0])), "ops": []},
                {"src": ("prom", "F", tv, "i", 0, ("throw", 5)), "ops": []}]
        out += [{"src": ("coro", "F", tv, 0, r), "ops": []} for r in st]
        out += [{"src": ("contract", "S", tv, "i", 1, st[0]), "ops": [("then", "inline", clone(RR))]}]
        out += [{"src": ("run", "T", "m0", clone(N)), "ops": [("tofuture",)]}]
    elif kind == "O":
        out += [{"src": ("contract", "O", tv, e, late, r), "ops": []} for e in ("m0", "s") for late in (0, 1) for r in st[:2]]
        out += [{"src": ("run", "O", e, clone(N)), "ops": []} for e in ("i", "m1", "s")]
        out += [{"src": ("prom", "O", tv, "m0", 0, ("set", 0, st[1])), "ops": []}]
        out += [{"src": ("ready", "F", tv, st[0]), "ops": [("then", ("on", "m2"), clone(RR))]}]
    elif kind == "S":
        out += [{"src": ("contract", "S", tv, "i", late, r), "ops": []} for late in (0, 1) for r in st]
        out += [{"src": ("run", "S", "i", clone(N)), "ops": []}, {"src": ("run", "SO", "m1", clone(NT)), "ops": []},
                {"src": ("run", "SO", "s", clone(N)), "ops": []}]
        out += [{"src": ("prom", "S", tv, "i", 0, ("set", 1, st[2])), "ops": []},
                {"src": ("prom", "SO", tv, "m0", 0, ("set", 0, st[0])), "ops": []}]
    else:  # Task
        out += [{"src": ("ready", "T", tv, r), "ops": []} for r in st]
        out += [{"src": ("run", "T", e, clone(N)), "ops": []} for e in ("i", "m0", "s")]
        out += [{"src": ("run", "T", "i", clone(NT)), "ops": []}]
        out += [{"src": ("prom", "T", tv, e, 0, ("set", late, st[0])), "ops": []} for e in ("i", "m1") for late in (0, 1)]
        out += [{"src": ("prom", "T", tv, "s", 0, ("set", 0, st[0])), "ops": []},
                {"src": ("prom", "T", tv, "i", 0, ("throw", 6)), "ops": []}]
        out += [{"src": ("coro", "T", tv, 0, r), "ops": []} for r in st]
        out += [{"src": ("ready", "T", tv, st[0]), "ops": [("then", "inline", clone(RR))]},
                {"src": ("run", "T", "m0", clone(N)), "ops": [("then", "inherit", clone(RR))]},
                {"src": ("coro", "T", tv, 0, st[1]), "ops": [("then", ("on", "m2"), clone(RR))]},
                {"src": ("prom", "T", tv, "i", 0, ("set", 1, st[0])), "ops": [("then", "inherit", clone(RR)), ("then", "inline", clone(RR))]}]
    return out


def sources(tv, full=True):
    """top-level sources (cached: clone before modifying)"""
    if ("src", tv, full) not in _CACHE:
        _CACHE[("src", tv, full)] = _sources(tv, full)
    return _CACHE[("src", tv, full)]


def _sources(tv, full=True):
    out = []
    st = [res_of(s, tv) for s in STATES]
    for w in ("F", "T"):
        out += [{"src": ("ready", w, tv, r), "ops": []} for r in st]
    if not full:
        # one source per (handle kind, executor, state class): enough to put every input state in front of every cell
        nf = lambda: mkfn("N", "V" if tv else "I", ("ret", 2))
        out += [{"src": ("contract", "O", tv, "m0", 1, st[0]), "ops": []},
                {"src": ("contract", "S", tv, "i", 0, st[1]), "ops": []},
                {"src": ("run", "SO", "m1", nf()), "ops": []},
                {"src": ("run", "O", "s", nf()), "ops": []},
                {"src": ("run", "T", "m0", nf()), "ops": []},
                {"src": ("prom", "T", tv, "i", 0, ("set", 1, st[0])), "ops": []},
                {"src": ("coro", "T", tv, 0, st[2]), "ops": []}]
        return out
    for (w, e) in (("F", "i"), ("O", "m0"), ("O", "s"), ("O", "i"), ("S", "i")):
        out += [{"src": ("contract", w, tv, e, late, r), "ops": []} for late in (0, 1) for r in st]
    for (w, es) in (("F", ["i"]), ("O", ["i", "m0", "s"]), ("S", ["i"]), ("SO", ["m1", "s"]), ("T", ["i", "m0", "s"])):
        for e in es:
            for par in T.PAR_OF_TY[1]:
                for ret in T.RET:
                    if T.ret_ty(ret) != tv or not T.step_ok(1, par, ret):
                        continue
                    if T.ret_shape(ret) == "async":
                        # a Run/Schedule function that itself returns a handle: one inner program per cell
                        cat = inner_catalogue(T.ret_akind(ret), T.ret_ty(ret))
                        q = clone(cat[(len(out) * 7) % len(cat)])
                        out.append({"src": ("run", w, e, mkfn(par, ret, ("async", q))), "ops": []})
                        continue
                    for b in plain_behs(ret):
                        out.append({"src": ("run", w, e, mkfn(par, ret, b)), "ops": []})
    for (w, es) in (("F", ["i"]), ("O", ["m0", "s"]), ("S", ["i"]), ("SO", ["m1"]), ("T", ["i", "m0", "s"])):
        for e in es:
            out += [{"src": ("prom", w, tv, e, 0, ("set", late, st[0])), "ops": []} for late in (0, 1)]
            out += [{"src": ("prom", w, tv, e, 0, ("set", 0, st[1])), "ops": []},
                    {"src": ("prom", w, tv, e, 0, ("throw", 5)), "ops": []}]
    for w in ("F", "T"):
        out += [{"src": ("coro", w, tv, 0, r), "ops": []} for r in st]
    return out


def attaches(wk, full=True):
    out = ["inline"]
    if full:
        out += [("on", "m0"), ("on", "s"), ("on", "i")]
    else:
        out += [("on", "m1"), ("on", "s")]
    if "inherit" in T.ATT_OF_WK[wk]:
        out.append("inherit")
    return out


def tiny_steps(wk, tv):
    """level 0: about 20 steps per world — every parameter class with a value-, a failure- and a handle-producing
    behaviour, mostly in line, a few on a manual / stopped / inherited executor"""
    same = "V" if tv else "I"
    other = "I" if tv else "V"
    rsame = "RV" if tv else "RI"
    cat = lambda k, t, i: clone(inner_catalogue(k, t)[i])
    inh = "inherit" if "inherit" in T.ATT_OF_WK[wk] else ("on", "m1")
    out = []
    val_par = "N" if tv else "V"
    out += [("then", "inline", mkfn("R", "I", ("ret", 5))), ("then", "inline", mkfn("R", "RV", ("reserr", 8))),
            ("then", ("on", "s"), mkfn("R", "V", ("ret", 5))), ("then", inh, mkfn("R", "TI", ("async", cat("T", 0, 3)))),
            ("then", "inline", mkfn("A", "SV", ("async", cat("S", 1, 1)))), ("then", "inline", mkfn("A", "I", ("throw", 7)))]
    out += [("then", "inline", mkfn(val_par, other, ("ret", 5))), ("then", "inline", mkfn(val_par, "I", ("throw", 7))),
            ("then", ("on", "m1"), mkfn(val_par, "RI", ("reserr", 8))), ("then", ("on", "s"), mkfn(val_par, "I", ("ret", 6))),
            ("then", "inline", mkfn(val_par, "FV", ("async", cat("F", 1, 3)))),
            ("then", inh, mkfn(val_par, "TI", ("async", cat("T", 0, 7))))]
    if tv:
        out += [("then", "inline", mkfn("U", "I", ("ret", 5))), ("then", inh, mkfn("U", "TV", ("async", cat("T", 1, 13))))]
    out += [("then", "inline", mkfn("E", same, ("ret", 5))), ("then", "inline", mkfn("E", rsame, ("resexc", 9))),
            ("then", ("on", "s"), mkfn("E", same, ("ret", 6))), ("then", "inline", mkfn("E", "T" + same, ("async", cat("T", tv, 4))))]
    out += [("then", "inline", mkfn("X", same, ("ret", 5))), ("then", ("on", "m1"), mkfn("X", same, ("throw", 7))),
            ("then", "inline", mkfn("X", "S" + same, ("async", cat("S", tv, 4))))]
    return out


def steps(wk, tv, level, pick=None):
    """step instances attachable in world (wk, tv).
    level 3: every cell x every behaviour (async: every inner program of the catalogue, and throwing) x every attach
    level 2: every cell x every plain behaviour / 3 inner programs chosen by `pick` x every attach kind
    level 1: every parameter class x return class, one or two behaviours, in line + other attaches for a few
    level 0: tiny_steps"""
    if level == 0:
        return tiny_steps(wk, tv)
    out = []
    for par in T.PAR_OF_TY[tv]:
        for ret in T.RET:
            if not T.step_ok(tv, par, ret):
                continue
            sh = T.ret_shape(ret)
            if sh == "async":
                cat = inner_catalogue(T.ret_akind(ret), T.ret_ty(ret))
                if level == 3:
                    behs = [("async", q) for q in cat] + [("throw", 7)]
                elif level == 2:
                    idx = pick(len(cat), 3) if pick else [0, 1, 2]
                    behs = [("async", cat[i]) for i in idx]
                else:
                    if ret not in ("FI", "FV", "TI", "TV", "SI", "SV"):
                        continue
                    i0 = pick(len(cat), 1)[0] if pick else 0
                    behs = [("async", cat[i0])]
            else:
                behs = plain_behs(ret)
                if level == 1:
                    if ret in ("RI", "RV"):
                        behs = [("reserr", 8)]
                    else:
                        behs = behs[:2] if T.ret_ty(ret) == 0 or par in ("N", "R") else behs[:1]
            for b in behs:
                if level == 1:
                    atts = ["inline"]
                    if b[0] in ("ret", "reserr") and par in ("R", "V", "N", "E"):
                        atts += [a for a in attaches(wk, False) if a != "inline"]
                else:
                    atts = attaches(wk, level == 3)
                for a in atts:
                    out.append(("then", a, mkfn(par, ret, clone(b))))
    return out


def finish(p):
    """close a program: a Task is started with ToFuture(); ids are assigned"""
    p = clone(p)
    if world(p)[0] == "T":
        p["ops"].append(("tofuture",))
    return number(p)


def enumerate_plan(plan, pick):
    """plan = [(number of steps, full source catalogue?, alphabet level), ...]: all programs over those alphabets"""
    out = []
    for (n, full, lvl) in plan:
        frontier = []
        for tv in (0, 1):
            frontier += sources(tv, full)
        cache = {}
        for _ in range(n):
            nxt = []
            for p in frontier:
                w = world(p)
                if w not in cache:
                    cache[w] = steps(w[0], w[1], lvl, pick)
                for st in cache[w]:
                    nxt.append({"src": p["src"], "ops": p["ops"] + [st]})
            frontier = nxt
        out += [finish(p) for p in frontier]
    return out


def random_program(rng, min_len=4, max_len=8, depth=0):
    """seeded sample weighted towards cells the test-suite never instantiates: Task-/SharedFuture-returning callbacks,
    recovery right after an unwrapping step, stopped executors, Run functions returning handles"""
    tv = rng.randrange(2)
    srcs = sources(tv, True)
    p = clone(rng.choice(srcs))
    if p["src"][0] == "run" and rng.random() < 0.35:
        # a Run/Schedule function that itself returns a handle
        par = rng.choice(["N", "R", "A", "U"])
        ret = rng.choice([r for r in T.RET if T.ret_shape(r) == "async"])
        cat = inner_catalogue(T.ret_akind(ret), T.ret_ty(ret))
        p["src"] = ("run", p["src"][1], p["src"][2], mkfn(par, ret, ("async", clone(rng.choice(cat)))))
    n = rng.randint(min_len, max_len)
    prev_async = False
    for _ in range(n):
        wk, tv = world(p)
        if wk in ("O", "SO") and rng.random() < 0.1:
            p["ops"].append(("onnull",))
            continue
        if wk == "T" and rng.random() < 0.1:
            p["ops"].append(("tofuture",))
            continue
        pars = list(T.PAR_OF_TY[tv])
        wts = [3 if (prev_async and x in ("E", "X", "R")) else 1 for x in pars]
        par = rng.choices(pars, wts)[0]
        rets = [r for r in T.RET if T.step_ok(tv, par, r)]
        wts = [4 if r[0] in ("T", "S") else 2 if r[0] in ("F", "O") else 1 for r in rets]
        ret = rng.choices(rets, wts)[0]
        if T.ret_shape(ret) == "async":
            if rng.random() < 0.1:
                beh = ("throw", rng.randrange(10))
            else:
                cat = inner_catalogue(T.ret_akind(ret), T.ret_ty(ret))
                q = clone(rng.choice(cat))
                if depth < 1 and rng.random() < 0.15:
                    # a deeper inner chain: a short random program of the right final kind
                    for _t in range(20):
                        cand = random_program(rng, 1, 3, depth + 1)
                        wq = world(cand)
                        if wq == (T.ret_akind(ret), T.ret_ty(ret)) or (wq == ("SO", T.ret_ty(ret)) and T.ret_akind(ret) == "S"):
                            q = cand
                            break
                beh = ("async", q)
            prev_async = True
        else:
            b = rng.choice(plain_behs(ret))
            beh = (b[0], rng.randrange(10))
            prev_async = False
        a = rng.choice(attaches(wk, True))
        p["ops"].append(("then", a, mkfn(par, ret, beh)))
    if depth > 0:
        return p
    return finish(p)

# ------------------------------------------------------------------------------------------------ one shared source, several users

def share_sources(tv):
    """programs that build one SharedFuture of value type tv (fulfilled before or after the users are built)"""
    st = [res_of(x, tv) for x in STATES]
    nf = lambda b: mkfn("N", "V" if tv else "I", b)
    out = [{"src": ("contract", "S", tv, "i", late, r), "ops": []} for late in (0, 1) for r in st]
    out += [{"src": ("run", "S", "i", nf(("ret", 2))), "ops": []},
            {"src": ("run", "SO", "m1", nf(("ret", 2))), "ops": []},
            {"src": ("run", "SO", "m1", nf(("throw", 3))), "ops": []},
            {"src": ("run", "SO", "s", nf(("ret", 2))), "ops": []},
            {"src": ("run", "S", "i", mkfn("R", "RV" if tv else "RI", ("reserr", 4))), "ops": []},
            {"src": ("prom", "S", tv, "i", 0, ("set", 0, st[0])), "ops": []},
            {"src": ("prom", "S", tv, "i", 0, ("set", 1, st[0])), "ops": []},
            {"src": ("prom", "SO", tv, "m0", 0, ("set", 0, st[1])), "ops": []},
            {"src": ("prom", "S", tv, "i", 0, ("throw", 5)), "ops": []}]
    return out


def share_users(tv):
    """pipelines whose callbacks return the shared handle (value type tv): after a value, on a manual executor, as the
    head of Run, from both kinds of recovery callback, lazily, twice in one pipeline, with a consumer behind; and a control"""
    S = "SV" if tv else "SI"
    sh = lambda par: mkfn(par, S, ("shared",))
    vi = ("ready", "F", 0, ("val", 1))
    back = ("then", "inline", mkfn("N" if tv else "V", "I", ("ret", 3)))   # a consumer of the flattened value
    return [
        {"src": vi, "ops": [("then", "inline", sh("V"))]},
        {"src": vi, "ops": [("then", ("on", "m0"), sh("R"))]},
        {"src": ("run", "O", "m1", sh("N")), "ops": []},
        {"src": ("ready", "F", tv, res_of("err", tv)), "ops": [("then", "inline", sh("E"))]},
        {"src": ("ready", "F", tv, res_of("exc", tv)), "ops": [("then", "inline", sh("X"))]},
        {"src": ("ready", "T", 1, ("unit",)), "ops": [("then", "inline", sh("N")), ("tofuture",)]},
        {"src": ("contract", "O", 1, "m0", 1, ("unit",)), "ops": [("then", "inherit", sh("U")), ("then", "inline", mkfn("R", "I", ("ret", 5)))]},
        {"src": vi, "ops": [("then", "inline", sh("V")), back, ("then", "inline", mkfn("A", "V", ("ret", 0)))]},
        {"src": vi, "ops": [("then", "inline", sh("A")), ("then", "inline", sh("N" if tv else "V"))]},
        {"src": vi, "ops": [("then", "inline", mkfn("V", "I", ("ret", 5)))]},
    ]


def share_cases(rng, tier):
    out = []
    for tv in (0, 1):
        users = share_users(tv)
        for src in share_sources(tv):
            extras = [0, 1, 2] if (src["src"][0] == "contract" or tier == "thorough") else [0]
            for ex in extras:
                for u1 in users:
                    for u2 in users:
                        out.append({"extra": ex, "src": src, "p1": u1, "p2": u2})
    # sampled: random pipelines in which the SharedFuture-returning callbacks return the shared handle
    for _ in range(8000 if tier == "thorough" else 1500):
        tv = rng.randrange(2)
        S = "SV" if tv else "SI"
        ps = []
        for _k in range(2):
            p = random_program(rng, 1, 4)
            used = False
            for f in fns(p, top_only=True):
                if f["ret"] == S and f["beh"][0] == "async" and rng.random() < 0.8:
                    f["beh"] = ("shared",)
                    used = True
            if not used:
                wk, t = world(p)
                pars = [x for x in T.PAR_OF_TY[t] if T.step_ok(t, x, S)]
                p["ops"].append(("then", rng.choice(attaches(wk, True)), mkfn(rng.choice(pars), S, ("shared",))))
                if rng.random() < 0.5:
                    p["ops"].append(("then", "inline", mkfn("R", "I", ("ret", rng.randrange(10)))))
            ps.append(p)
        out.append({"extra": rng.choice([0, 0, 0, 1, 2]), "src": clone(rng.choice(share_sources(tv))), "p1": ps[0], "p2": ps[1]})
    return [number_share(c) for c in out]


def coq_share(cases_gallina, name, per_file=400, timeout=1500):
    """evaluate obs_share for every case; returns a list of [seg_src, seg_p1, seg_p2] (each an obs_z list) or None"""
    hdr = ("From Coq Require Import List ZArith. Import ListNotations.\nFrom YV Require Import model.Pipe model.PipeObs.\n"
           "Local Open Scope Z_scope.\nSet Printing Depth 10000000.\nSet Printing Width 1000000.\n")
    n = len(cases_gallina)
    files = [(k, cases_gallina[k:k + per_file]) for k in range(0, n, per_file)]

    def one(job):
        k, terms = job
        nm = "%s_%d_%d" % (name, os.getpid(), k)
        ok, out = vlib.coqc_eval(hdr + "\n".join("Eval vm_compute in (%s)." % t for t in terms) + "\n", nm, timeout=timeout)
        try:
            os.remove(os.path.join(vlib.COQ, "cases", nm + ".v"))
        except OSError:
            pass
        res = []
        for m in re.finditer(r"=\s*(\[[^\]]*\]|nil)\s*:\s*list Z", out.replace("\n", " ")):
            nums = [int(x) for x in re.findall(r"-?\d+", m.group(1))]
            segs, i = [], 0
            while i < len(nums):
                segs.append(nums[i + 1:i + 1 + nums[i]])
                i += 1 + nums[i]
            res.append(segs if len(segs) == 3 else None)
        if not ok or len(res) != len(terms):
            return k, [None] * len(terms), out[-3000:]
        return k, res, ""

    results, logs = [None] * n, []
    with concurrent.futures.ThreadPoolExecutor(max_workers=vlib.NPROC) as ex:
        for k, res, log in ex.map(one, files):
            results[k:k + len(res)] = res
            if log:
                logs.append(log)
    return results, logs


# ------------------------------------------------------------------------------------------------ build

def invocable_from_coq():
    hdr = "From Coq Require Import List ZArith. Import ListNotations.\nFrom YV Require Import model.Pipe model.PipeObs.\n"
    ok, out = vlib.coqc_eval(hdr + "Eval vm_compute in invocable_table.\n", "pipe_inv_%d" % os.getpid())
    try:
        os.remove(os.path.join(vlib.COQ, "cases", "pipe_inv_%d.v" % os.getpid()))
    except OSError:
        pass
    m = re.search(r"=\s*\[([^\]]*)\]\s*:\s*list Z", out.replace("\n", " "))
    if not ok or not m:
        raise vlib.BuildError("cannot evaluate Pipe.invocable_table:\n" + out[-2000:])
    bits = [int(x) for x in re.findall(r"-?\d+", m.group(1))]
    table = {}
    i = 0
    for par in ["R", "V", "E", "X", "N", "U", "A"]:
        for tv in (0, 1):
            for g in range(5):
                table[(par, tv, g)] = bool(bits[i])
                i += 1
    return table


def build_harness(main_src, name, cfg="BC"):
    """generate the table (in the per-tree build cache), compile its shards in parallel (objects cached by content),
    link with main_src.  Returns (exe, build-info)."""
    b = vlib.build(cfg)
    gendir = os.path.join(b["build"], "pipe_gen")
    os.makedirs(gendir, exist_ok=True)
    lock = open(os.path.join(gendir, ".lock"), "w")
    fcntl.flock(lock, fcntl.LOCK_EX)
    try:
        files = T.generate(gendir, NSHARDS, invocable_from_coq())
        hpp = b"".join(open(os.path.join(vlib.VERIF, "harness", f), "rb").read()
                       for f in sorted(os.listdir(os.path.join(vlib.VERIF, "harness"))) if f.endswith(".hpp"))
        flags = b["cxx"]

        def obj_for(src, extra):
            h = hashlib.sha1(hpp + open(src, "rb").read() + " ".join(flags + extra).encode()).hexdigest()[:16]
            return os.path.join(gendir, "o_%s_%s.o" % (os.path.basename(src).replace(".cpp", ""), h))

        jobs = [(f, ["-O0", "-g0"]) for f in files] + [(main_src, [])]
        objs = [obj_for(s, e) for s, e in jobs]
        exe = os.path.join(b["build"], "h_%s_%s" % (name, hashlib.sha1(" ".join(objs).encode()).hexdigest()[:12]))
        if os.path.exists(exe):
            return exe, b

        def cc(job):
            (src, extra), obj = job
            if os.path.exists(obj):
                return None
            tmp = obj + ".tmp%d" % os.getpid()
            r = vlib.sh(["g++"] + flags + extra + ["-c", src, "-o", tmp])
            if r.returncode != 0:
                return "%s:\n%s" % (src, r.stdout[-6000:])
            os.rename(tmp, obj)
            return None

        with concurrent.futures.ThreadPoolExecutor(max_workers=vlib.NPROC) as ex:
            errs = [e for e in ex.map(cc, list(zip(jobs, objs))) if e]
        if errs:
            raise vlib.BuildError("pipeline table harness does not compile against this tree (%s):\n%s" % (cfg, errs[0]))
        tmp = exe + ".tmp%d" % os.getpid()
        r = vlib.sh(["g++"] + objs + [b["lib"], "-lpthread", "-o", tmp])
        if r.returncode != 0:
            raise vlib.BuildError("pipeline table harness does not link:\n" + r.stdout[-4000:])
        os.rename(tmp, exe)
        for f in os.listdir(b["build"]):
            if f.startswith("h_%s_" % name) and os.path.join(b["build"], f) != exe and ".tmp" not in f:
                try:
                    os.remove(os.path.join(b["build"], f))
                except OSError:
                    pass
        # drop objects of older harness versions
        keep = set(objs)
        for f in os.listdir(gendir):
            if f.startswith("o_") and os.path.join(gendir, f) not in keep:
                try:
                    os.remove(os.path.join(gendir, f))
                except OSError:
                    pass
        return exe, b
    finally:
        fcntl.flock(lock, fcntl.LOCK_UN)
        lock.close()

# ------------------------------------------------------------------------------------------------ running

def scratch(tag):
    d = "/var/tmp/%s.%d" % (tag, os.getpid())
    os.makedirs(d, exist_ok=True)
    return d


def run_programs(exe, progs, tag, extra_args=(), timeout=1500):
    """run the wire programs through the harness in NPROC parallel processes; returns a list of row dicts (by index)"""
    d = scratch(tag)
    n = len(progs)
    nsh = max(1, min(vlib.NPROC, (n + 199) // 200))
    per = (n + nsh - 1) // nsh
    shards = [(k, progs[k * per:(k + 1) * per]) for k in range(nsh) if progs[k * per:(k + 1) * per]]

    def one(sh):
        k, ps = sh
        path = os.path.join(d, "p%d.txt" % k)
        with open(path, "w") as f:
            f.write("\n".join(ps) + "\n")
        try:
            r = subprocess.run([exe, "--programs", path] + list(extra_args), stdout=subprocess.PIPE, stderr=subprocess.PIPE,
                               encoding="utf-8", errors="replace", timeout=timeout)
            out, err = r.stdout, r.stderr
        except subprocess.TimeoutExpired as ex:
            out = ex.stdout.decode() if isinstance(ex.stdout, bytes) else (ex.stdout or "")
            err = "TIMEOUT"
        rows = [None] * len(ps)
        for line in out.split("\n"):
            if line.startswith("{"):
                try:
                    row = json.loads(line)
                    rows[row["i"]] = row
                except Exception:
                    pass
        return k, rows, err

    res = [None] * n
    errs = []
    with concurrent.futures.ThreadPoolExecutor(max_workers=vlib.NPROC) as ex:
        for k, rows, err in ex.map(one, shards):
            for i, row in enumerate(rows):
                res[k * per + i] = row
            if err.strip():
                errs.append(err.strip()[-500:])
    try:
        for f in os.listdir(d):
            os.remove(os.path.join(d, f))
        os.rmdir(d)
    except OSError:
        pass
    return res, errs


RES_KIND = {"val": 0, "unit": 1, "err": 2, "exc": 3}
IN_KIND = {"R": 0, "V": 1, "E": 2, "X": 3, "N": 4, "U": 5}


def parse_row(row):
    """harness row -> (final (kind, payload) or None, [(id, inkind, reskind, payload), ...])"""
    if row is None or "crash" in row:
        return None, None
    fk, fp = row["final"].split(":")
    final = (RES_KIND.get(fk, 9), int(fp))
    evs = []
    if row["events"]:
        for e in row["events"].split(","):
            m = re.match(r"(\d+):([RVEXNU])/([a-z]+):(-?\d+)@(\d+)$", e)
            evs.append((int(m.group(1)), IN_KIND[m.group(2)], RES_KIND.get(m.group(3), 9), int(m.group(4))))
    return final, evs


def coq_obs(progs_gallina, name, fn="obs_z", batch=40, per_file=2000, timeout=1500):
    """evaluate `fn p` for every Gallina program term; returns a list of int lists (None where evaluation failed)"""
    hdr = ("From Coq Require Import List ZArith. Import ListNotations.\nFrom YV Require Import model.Pipe model.PipeObs.\n"
           "Local Open Scope Z_scope.\nSet Printing Depth 10000000.\nSet Printing Width 1000000.\n")
    many = {"obs_z": "obs_many"}.get(fn)
    n = len(progs_gallina)
    files = [(k, progs_gallina[k:k + per_file]) for k in range(0, n, per_file)]

    def one(job):
        k, terms = job
        body = [hdr]
        if many:
            for j in range(0, len(terms), batch):
                body.append("Eval vm_compute in (%s [%s])." % (many, "; ".join(terms[j:j + batch])))
        else:
            for t in terms:
                body.append("Eval vm_compute in (%s %s)." % (fn, t))
        ok, out = vlib.coqc_eval("\n".join(body) + "\n", "%s_%d_%d" % (name, os.getpid(), k), timeout=timeout)
        try:
            os.remove(os.path.join(vlib.COQ, "cases", "%s_%d_%d.v" % (name, os.getpid(), k)))
        except OSError:
            pass
        res = []
        for m in re.finditer(r"=\s*(\[[^\]]*\]|nil)\s*:\s*list Z", out.replace("\n", " ")):
            nums = [int(x) for x in re.findall(r"-?\d+", m.group(1))]
            if many:
                i = 0
                while i < len(nums):
                    ln = nums[i]
                    res.append(nums[i + 1:i + 1 + ln])
                    i += 1 + ln
            else:
                res.append(nums)
        if not ok or len(res) != len(terms):
            return k, [None] * len(terms), out[-3000:]
        return k, res, ""

    results = [None] * n
    logs = []
    with concurrent.futures.ThreadPoolExecutor(max_workers=vlib.NPROC) as ex:
        for k, res, log in ex.map(one, files):
            results[k:k + len(res)] = res
            if log:
                logs.append(log)
    return results, logs


def decode_obs(o):
    """obs_z list -> dict(compiles, typed, agree, final, events)"""
    if o is None:
        return None
    compiles, typed, agree = o[0], o[1], o[2]
    final = (o[3], o[4])
    n = o[5]
    evs = []
    i = 6
    for _ in range(n):
        evs.append((o[i], o[i + 1], o[i + 2], o[i + 3]))
        i += 4
    return dict(compiles=compiles, typed=typed, agree=agree, final=final, events=evs)
