"""C06: implementation trace (harness/h_c06.cpp) -> event list of coq/model/Shared.v.

Purely syntactic: every traced operation on the callback word `w` and on the reference counter `rc` becomes one model
event; which handle / callback an operation belongs to is taken from the harness markers that precede it on the same
fiber (`!attach h k name`, `!copy src new`, `!destroy h`, ...).  Values returned by read-modify-write operations are
reconstructed from the previous value of the location (the FIBER backend is sequentially consistent): a CAS succeeded
iff it changed the word.  The model itself decides whether each event is possible in its current state."""
import re

KIND = {"i": "KInl", "s": "KInl", "a": "KInl", "e": "KCall", "u": "KCall", "d": "KCall", "k": "KConn"}
WOBS = {"E": "OE", "L": "OL", "R": "OR"}


class MapError(ValueError):
    pass


def wtok(val):
    return "L" if val.startswith("L") else val


def to_events(trace):
    """-> dict(wf=bool, events=[str], gots=[int], iruns=[int], readys=[(index, answer)], cvs={cbid: [int]},
               n_cs=int, spurious=int, cas_fail=int)"""
    toks = [t for t in trace.split(";") if t]
    parsed = []
    for t in toks:
        thr, _, rest = t.partition(":")
        if rest.startswith("!"):
            parsed.append((thr, "m", rest[1:], None, None))
        else:
            m = re.match(r"([a-z_]+)@(w|rc)=(\S+)$", rest)
            if not m:
                raise MapError("unknown trace token " + t)
            parsed.append((thr, "a", m.group(1), m.group(2), m.group(3)))
    # ---- pre-pass: the awaiter object of `co_await f` is destroyed (DecRef) on the thread that resumed the coroutine,
    # right after await_resume copied the value out and before the coroutine's own marker `!cb <name>`
    await_names = {}
    for thr, k, a, b, c in parsed:
        if k == "m" and (a.startswith("await ") or a.startswith("unwrap ")):
            # co_await's awaiter object / the SharedFuture returned by a continuation that the library flattens: a
            # temporary copy through which a const-reading callback is attached and which is released right after the read
            _, src, hname, cname = a.split()
            await_names[cname] = hname
    tag = {}
    for i, (thr, k, a, b, c) in enumerate(parsed):
        if k == "m" and a.startswith("cb ") and a.split()[1] in await_names:
            cname = a.split()[1]
            j = i - 1
            while j >= 0 and not (parsed[j][0] == thr and parsed[j][1] == "a" and parsed[j][2] == "fetch_sub"):
                j -= 1
            if j < 0:
                raise MapError("awaiter %s: no DecRef before its resumption marker" % cname)
            tag[j] = ("adestroy", cname)
            q = j - 1
            while q >= 0 and not (parsed[q][0] == thr and parsed[q][1] == "m" and
                                  (parsed[q][2].startswith("scopy ") or parsed[q][2].startswith("smove "))):
                q -= 1
            if q < 0:
                raise MapError("awaiter %s: no read before its resumption marker" % cname)
            tag[q] = ("aread", cname)

    evs = []
    out = dict(wf=True, events=evs, gots=[], iruns=[], readys=[], cvs={}, spurious=0, cas_fail=0, n_cs=0)
    handles, nh = {}, 0
    cbs, kinds, ncb = {}, {}, 0
    astate = {}            # awaiter callback name -> 'ready' | 'inline' | 'attached'
    ctx = {}
    pending_dtor = {}
    after_cb = {}
    cur_w = "E"
    n_ready = 0
    ready_of = {}          # thread -> index of its latest Ready()/await_ready() observation (markers of one thread may
    taken_by = {}          # be separated from its operation by other threads' operations); thread -> value it took out

    def restore(thr, cx):
        if cx.get("prev") is not None:
            ctx[thr] = cx["prev"]
        else:
            ctx.pop(thr, None)

    def hid(name):
        if name not in handles:
            raise MapError("unknown handle " + name)
        return handles[name]

    def new_cb(name):
        nonlocal ncb
        if name is not None:
            cbs[name] = ncb
        ncb += 1
        return ncb - 1

    for i, (thr, k, a, b, c) in enumerate(parsed):
        cx = ctx.get(thr)
        if k == "m":
            f = a.split()
            head = f[0]
            if head == "init":
                out["wf"] = f[1] == "1"
                if out["wf"]:
                    handles["h0"] = 0
                    nh = 1
            elif head == "set":
                evs.append("ESet %d" % int(f[1]))
            elif head in ("setdone", "attached", "woke", "drain", "setthrow"):
                # setthrow: a Set whose Store threw - nothing stored, nothing published: no model event
                if head in ("attached", "woke"):
                    ctx.pop(thr, None)
            elif head == "copy":
                ctx[thr] = dict(k="copy", src=f[1], new=f[2])
            elif head == "splitp":
                ctx[thr] = dict(k="splitp", new=f[1])
            elif head == "destroy":
                ctx[thr] = dict(k="destroy", h=f[1], prev=ctx.get(thr))     # (may happen inside another operation)
            elif head == "destroyed":
                if cx and cx["k"] == "destroy":
                    restore(thr, cx)
            elif head == "ready":
                ctx[thr] = dict(k="ready", h=f[1])
            elif head.startswith("ready="):
                out["readys"].append((ready_of.get(thr, n_ready - 1), int(head[6:])))
            elif head in ("touch", "touchmv"):
                ctx[thr] = dict(k="touch", h=f[1], mv=(head == "touchmv"), stage=0)
            elif head in ("get", "getmv", "wait"):
                ctx[thr] = dict(k="wait", h=f[1], kont={"get": "WRead", "getmv": "WRc", "wait": "W0"}[head], stage=0)
            elif head == "attach":
                kinds[f[3]] = KIND[f[2]]
                ctx[thr] = dict(k="attach", h=f[1], kind=KIND[f[2]], name=f[3], stage=0)
            elif head in ("await", "unwrap"):
                kinds[f[3]] = "KInl"
                astate[f[3]] = "ready"
                ctx[thr] = dict(k="await", src=f[1], h=f[2], kind="KInl", name=f[3], stage="init",
                                unwrap=(head == "unwrap"))
            elif head == "got":
                code = int(f[1])
                if cx and ((cx["k"] == "touch" and not cx["mv"]) or (cx["k"] == "wait" and cx["kont"] == "WRead")):
                    evs.append("EGot %d" % hid(cx["h"]))
                    out["gots"].append(code)
                    ctx.pop(thr, None)
                elif cx and (cx["k"] in ("touch", "wait")):
                    if taken_by.get(thr) != code:
                        raise MapError("Get/Touch&& returned %d but the value taken out of the state was %s" %
                                       (code, taken_by.get(thr)))
                    ctx.pop(thr, None)
                else:
                    raise MapError("`got` outside a Get/Touch")
            elif head in ("scopy", "smove"):
                code = int(f[1])
                if i in tag:
                    cname = tag[i][1]
                    stt = astate[cname]
                    if stt == "attached":
                        evs.append("EFRun")
                        out["cvs"].setdefault(cbs[cname], []).append(code)
                    elif stt == "inline":
                        evs.append("ECbInl %d" % hid(await_names[cname]))
                        out["iruns"].append(code)
                    else:
                        evs.append("EGot %d" % hid(await_names[cname]))
                        out["gots"].append(code)
                elif cx and cx["k"] in ("touch", "wait") and cx.get("stage") == "rc":
                    evs.append("EGot %d" % hid(cx["h"]))
                    out["gots"].append(code)
                    taken_by[thr] = code
                elif cx and cx["k"] == "attach" and cx.get("stage") == "connr":
                    evs.append("ECbInl %d" % hid(cx["h"]))
                    out["iruns"].append(code)
                elif thr == "F":
                    evs.append("EFRun")
                    out.setdefault("anon_runs", []).append(code)
                else:
                    raise MapError("a copy/move out of the shared state that no operation accounts for: " + a)
            elif head == "cb":
                name, code = f[1], int(f[2])
                if name in await_names:
                    pass                                   # the read was the tagged scopy
                elif kinds[name] == "KInl":
                    if name in cbs:
                        evs.append("EFRun")
                        out["cvs"].setdefault(cbs[name], []).append(code)
                    else:
                        if not (cx and cx["k"] == "attach" and cx["name"] == name):
                            raise MapError("callback %s ran inline outside its attach" % name)
                        evs.append("ECbInl %d" % hid(cx["h"]))
                        out["iruns"].append(code)
                elif kinds[name] == "KCall":
                    if name not in cbs:
                        raise MapError("job %s ran before it was submitted" % name)
                    evs.append("ECb %d" % cbs[name])
                    out["cvs"].setdefault(cbs[name], []).append(code)
                    after_cb[thr] = cbs[name]
                else:
                    raise MapError("unexpected callback marker " + a)
            elif head == "cbk":
                name, code = f[1], int(f[2])
                out.setdefault("conn_seen", {}).setdefault(name, []).append(code)
            else:
                raise MapError("unknown harness event " + a)
            continue
        # ---- atomic operation
        op, loc, val = a, b, c
        if loc == "w":
            v = wtok(val)
            if op == "exchange":
                evs.append("EXchg")
                cur_w = val
            elif op == "load":
                if pending_dtor.get(thr):
                    evs.append("EDtor")
                    pending_dtor[thr] = False
                elif cx is None:
                    raise MapError("load of the word outside any operation by " + thr)
                elif cx["k"] == "ready":
                    evs.append("EReady %d %s" % (hid(cx["h"]), WOBS[v]))
                    ready_of[thr] = n_ready
                    n_ready += 1
                    ctx.pop(thr, None)
                elif cx["k"] == "touch" and cx["stage"] == 0:
                    evs.append("ETouchL %d %s %s" % (hid(cx["h"]), "true" if cx["mv"] else "false", WOBS[v]))
                    cx["stage"] = "rc" if cx["mv"] else "read"
                elif cx["k"] == "wait":
                    if cx["stage"] == 0:
                        evs.append("EAttL %d (PWait %s) %s" % (hid(cx["h"]), cx["kont"], WOBS[v]))
                    else:
                        evs.append("ELdA %d %s" % (hid(cx["h"]), WOBS[v]))
                        out["spurious"] += 1
                    cx["stage"] = "rc" if v == "R" else "loop"
                elif cx["k"] == "await" and cx["stage"] == "copied":
                    evs.append("EAwaitL %d %s" % (hid(cx["h"]), WOBS[v]))
                    ready_of[thr] = n_ready
                    n_ready += 1
                    cx["stage"] = 0
                elif cx["k"] in ("attach", "await"):
                    if cx["stage"] == 0:
                        evs.append("EAttL %d (PCb %s) %s" % (hid(cx["h"]), cx["kind"], WOBS[v]))
                        cx["stage"] = "loop"
                    elif cx["stage"] == "loop":
                        evs.append("ELdA %d %s" % (hid(cx["h"]), WOBS[v]))
                        out["spurious"] += 1
                    elif cx["stage"] == "inline" and cx["kind"] == "KConn":
                        evs.append("EConnL %d %s" % (hid(cx["h"]), WOBS[v]))
                        cx["stage"] = "connr"
                        continue
                    else:
                        raise MapError("unexpected load of the word in attach stage %s" % cx["stage"])
                    if v == "R":
                        cx["stage"] = "inline"
                        if cx["k"] == "await":
                            astate[cx["name"]] = "inline"
                else:
                    raise MapError("unexpected load of the word by %s in %s" % (thr, cx["k"]))
            elif op == "compare_exchange_weak":
                if cx is None or cx["k"] not in ("attach", "await", "wait") or cx["stage"] != "loop":
                    raise MapError("CAS on the word outside a push loop")
                ok = val != cur_w
                evs.append("ECas %d %s" % (hid(cx["h"]), "true" if ok else "false"))
                if ok:
                    if val == "R" or val == "E":
                        raise MapError("a CAS installed " + val)
                    cur_w = val
                    if cx["k"] == "wait":
                        new_cb(None)
                        cx["stage"] = "rc"
                    else:
                        new_cb(cx["name"])
                        cx["stage"] = "done"
                        if cx["k"] == "await":
                            astate[cx["name"]] = "attached"
                            if cx.get("unwrap"):
                                ctx.pop(thr, None)
                else:
                    out["cas_fail"] += 1
                    if v == "R":
                        if cx["k"] == "wait":
                            cx["stage"] = "rc"
                        else:
                            cx["stage"] = "inline"
                            if cx["k"] == "await":
                                astate[cx["name"]] = "inline"
            else:
                raise MapError("unexpected operation on the callback word: " + op)
        else:
            n = int(val)
            if op == "load":
                if cx and cx["k"] in ("touch", "wait") and cx.get("stage") == "rc":
                    evs.append("ERcH %d %d" % (hid(cx["h"]), n))
                elif thr == "F":
                    evs.append("EFRc %d" % n)
                else:
                    raise MapError("load of the counter outside Get&&/Touch&&/Impl by " + thr)
            elif op == "fetch_add":
                if cx and cx["k"] == "copy":
                    evs.append("ECopy %d" % hid(cx["src"]))
                    handles[cx["new"]] = nh
                    nh += 1
                    ctx.pop(thr, None)
                elif cx and cx["k"] == "splitp":
                    evs.append("ECopyP")
                    handles[cx["new"]] = nh
                    nh += 1
                    ctx.pop(thr, None)
                elif cx and cx["k"] == "await" and cx["stage"] == "init":
                    evs.append("ECopy %d" % hid(cx["src"]))
                    handles[cx["h"]] = nh
                    nh += 1
                    cx["stage"] = 0 if cx.get("unwrap") else "copied"       # no await_ready before SetInline
                elif cx and cx["k"] == "attach" and cx["stage"] == "inline" and cx["kind"] == "KCall":
                    evs.append("EIncInl %d" % hid(cx["h"]))
                    new_cb(cx["name"])
                    cx["stage"] = "done"
                elif thr == "F":
                    evs.append("EFInc")
                else:
                    raise MapError("IncRef that no operation accounts for by " + thr)
            elif op == "fetch_sub":
                if i in tag:
                    evs.append("EDestroy %d" % hid(await_names[tag[i][1]]))
                    if cx and cx.get("unwrap") and cx["name"] == tag[i][1]:
                        ctx.pop(thr, None)
                elif thr in after_cb and after_cb[thr] is not None:
                    evs.append("ECbDec %d" % after_cb[thr])
                    after_cb[thr] = None
                elif cx and cx["k"] == "destroy":
                    evs.append("EDestroy %d" % hid(cx["h"]))
                    restore(thr, cx)
                elif thr == "F":
                    evs.append("EDecF")
                else:
                    raise MapError("DecRef that no operation accounts for by " + thr)
                if n == 0:
                    pending_dtor[thr] = True
            else:
                raise MapError("unexpected operation on the reference counter: " + op)
    out["n_cs"] = ncb
    out["names"] = dict(cbs)
    out["kinds"] = kinds
    return out


def decode(r):
    """list of numbers printed by SharedObs.obs_nat -> dict"""
    if r[0] == 0:
        return dict(accepted=False, at=r[1])
    d = dict(accepted=True, terminal=r[1], frees=r[2], under=r[3], uaf=r[4], refs=r[5], nfail=r[6])
    p = 7
    for key in ("gots", "iruns", "readys"):
        n = r[p]
        d[key] = r[p + 1:p + 1 + n]
        p += 1 + n
    ncs = r[p]
    p += 1
    cvs = []
    for _ in range(ncs):
        n = r[p]
        cvs.append(r[p + 1:p + 1 + n])
        p += 1 + n
    d["cvs"] = cvs
    return d


def compare(m, d):
    """m: to_events result, d: decoded model outcome.  Returns None or a description of the disagreement."""
    if not d["accepted"]:
        return "model rejects event #%d (%s)" % (d["at"], m["events"][d["at"]] if d["at"] < len(m["events"]) else "?")
    if d["gots"] != [g + 1 for g in m["gots"]]:
        return "Get/Touch values: model %s, implementation %s" % (d["gots"], m["gots"])
    if d["iruns"] != [g + 1 for g in m["iruns"]]:
        return "inline callback values: model %s, implementation %s" % (d["iruns"], m["iruns"])
    for idx, ans in m["readys"]:
        if idx >= len(d["readys"]) or (d["readys"][idx] // 2) != ans:
            return "Ready() #%d: model %s, implementation answered %d" % (idx, d["readys"][idx:idx + 1], ans)
    if len(d["cvs"]) != m["n_cs"]:
        return "model has %d callbacks, implementation attached %d" % (len(d["cvs"]), m["n_cs"])
    anon = sorted(m.get("anon_runs", []))
    manon = []
    conn_ids = {cid: name for name, cid in m["names"].items() if m["kinds"].get(name) == "KConn"}
    for cid, vals in enumerate(d["cvs"]):
        if cid in conn_ids:
            manon += [v - 1 for v in vals]
            seen = m.get("conn_seen", {}).get(conn_ids[cid], [])
            if [v - 1 for v in vals] != seen:
                return "connected callback %s: model %s, downstream saw %s" % (conn_ids[cid], vals, seen)
        elif cid in m["cvs"]:
            if vals != [v + 1 for v in m["cvs"][cid]]:
                return "callback #%d: model %s, implementation %s" % (cid, vals, m["cvs"][cid])
        elif vals:
            return "callback #%d: model says it ran %s, the implementation never ran it" % (cid, vals)
    if sorted(manon) != anon:
        return "copies/moves by connected callbacks: model %s, implementation %s" % (sorted(manon), anon)
    if d["terminal"] != 1 or d["frees"] != 1 or d["refs"] != 0:
        return "end of run: model terminal=%d frees=%d refs=%d (expected 1 1 0)" % (d["terminal"], d["frees"], d["refs"])
    if d["under"] != 0 or d["uaf"] != 0:
        return "model recorded underflow=%d use-after-free=%d" % (d["under"], d["uaf"])
    if any(x == 2 for x in d["readys"]):
        return "Ready() answered true while the value could not be read"
    return None
