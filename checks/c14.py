"""C14 — coroutine Mutex<Batching, FIFO>: mutual exclusion, TryLock only when free, no lost wake-up, every request granted
exactly once (also on one worker), FIFO grant order.
Proof: coq/props/Properties_C14.v (invariant of the CoMutex LTS: any number of coroutines, rounds, workers, executors; the
       four option combinations are parameters of the initial state).
Tie:   the real yaclib::Mutex (FIBER backend) used by coroutines on FairThreadPool(1|2) and on an instrumented manual
       executor (workers pick any queued job) plus a plain bystander thread calling TryLock, explored exhaustively
       (DFS) for the small configurations and by seeded random walks for the larger ones; every distinct trace is mapped
       to CoMutex.v events and replayed through CoMutex.run inside Coq: the model must accept every event with the
       observed value and predict the observed order of critical sections / TryLock answers / quiescence.
Oracle (property text only) runs inside the harness on every execution."""
import concurrent.futures, json, os, re, time
import vlib, runner

HARNESS = os.path.join(vlib.VERIF, "harness", "h_c14.cpp")
BY_EXE = 9   # the executor id standing for the bystander's own thread


def ptr(v):
    if v == "N":
        return "PN"
    if v == "L":
        return "PL"
    m = re.match(r"W(\d+)$", v)
    if not m:
        raise ValueError("unknown value of the sender word: " + v)
    return "(PW %s)" % m.group(1)


def to_events(trace):
    """Implementation trace -> (model parameters, events, observed CS entries [(c, queued)], observed TryLock answers).
    Purely syntactic: every token of a worker is an event of the coroutine / release procedure that worker is executing;
    the value returned by an exchange and the success of a CAS are reconstructed from the previous value of the word
    (the FIBER backend is sequentially consistent); the unobservable plain read `_receiver != nullptr` of
    TryUnlockAwait is emitted when the releasing thread's next token shows which way it went (ERCheck); a worker that
    shows a coroutine it was not running has taken it from its queue (EStart), or received it by symmetric transfer
    from the release procedure it was executing (ERTransfer)."""
    toks = [t for t in trace.split(";") if t]
    m = re.match(r"main:!cfg B=(\d) F=(\d) W=([\d,]*) H=([\d,]*) Y=(\d)$", toks[0])
    if not m:
        raise ValueError("no cfg token: " + toks[0])
    batching, fifo = m.group(1) == "1", m.group(2) == "1"
    nworkers = [int(x) for x in m.group(3).split(",") if x]
    homes = [int(x) for x in m.group(4).split(",") if x]
    by = m.group(5) == "1"
    k = len(homes)
    wexe, base = [], []
    for e, n in enumerate(nworkers):
        base.append(len(wexe))
        wexe += [e] * n
    if by:
        by_slot = len(wexe)
        wexe.append(BY_EXE)
        homes = homes + [BY_EXE]
    slot = {}                      # fiber name -> worker slot
    used = [0] * len(nworkers)     # pool: slots handed out per executor
    where = dict((c, homes[c]) for c in range(len(homes)))   # executor each coroutine was last submitted to
    cur, rel = {}, {}              # fiber -> coroutine it runs / release procedure it executes
    phase = {}                     # coroutine -> 'try0' | 'trycas' | 'lock0' | 'loop'
    kind = {}                      # coroutine -> 'try' | 'lock'
    queued = {}                    # coroutine -> its current request was pushed
    word = "N"
    evs, entered, tries = [], [], []

    def slot_of(f, c):
        if f in slot:
            return slot[f]
        mm = re.match(r"w(\d+)\.(\d+)$", f)
        if mm:
            slot[f] = base[int(mm.group(1))] + int(mm.group(2))
        elif f == "Y":
            slot[f] = by_slot
        else:                       # a pool worker: it serves the executor c was submitted to
            e = where[c]
            if used[e] >= nworkers[e]:
                raise ValueError("more worker fibers than workers on executor %d" % e)
            slot[f] = base[e] + used[e]
            used[e] += 1
        return slot[f]

    def flush_check(f, is_load):
        r = rel.get(f)
        if r and r["stage"] == "check":
            evs.append("ERCheck %d %s" % (r["c"], "true" if is_load else "false"))
            r["stage"] = "load" if is_load else "slow"

    def ensure(f, c):
        if cur.get(f) != c:
            if rel.get(f):
                raise ValueError("fiber %s shows coroutine %d in the middle of a release" % (f, c))
            evs.append("EStart %d %d" % (slot_of(f, c), c))
            cur[f] = c

    for tok in toks[1:]:
        f, _, rest = tok.partition(":")
        if f == "main":
            continue
        if rest.startswith("!"):
            mm = re.match(r"([a-z]+)(\d+)(?: (\S+))?$", rest[1:])
            if not mm:
                raise ValueError("unknown marker " + tok)
            name, num, arg = mm.group(1), int(mm.group(2)), mm.group(3)
            if name == "run":
                continue
            if name == "sub":
                e, n = num, int(arg)
                flush_check(f, False)
                r = rel.get(f)
                if r:
                    c = r["c"]
                    if r["stage"] == "start" and n == c and r["form"] in ("O", "S"):
                        evs.append("ERSelf %d %d" % (c, e))
                        r["stage"] = "assert"
                        r["form"] = "O"
                        where[c] = e
                        cur[f] = None
                    elif r["stage"] == "slow" and r["form"] == "A" and n == c:
                        evs.append("ERBatchSubmit %d %d" % (c, e))
                        r["stage"] = "xfer"
                        where[c] = e
                        cur[f] = None
                    elif r["stage"] == "slow":
                        evs.append("ERSubmitNext %d %d %d" % (c, n, e))
                        where[n] = e
                        rel[f] = None
                    else:
                        raise ValueError("unexpected Submit inside a release: " + tok)
                else:
                    if cur.get(f) != n:
                        raise ValueError("Submit of a coroutine that is not running here: " + tok)
                    evs.append("EHop %d %d" % (n, e))
                    where[n] = e
                    cur[f] = None
                continue
            c = num
            if name == "in":
                flush_check(f, False)
                r = rel.get(f)
                if r:
                    if r["stage"] not in ("slow", "xfer"):
                        raise ValueError("transfer at an unexpected point: " + tok)
                    evs.append("ERTransfer %d %d" % (r["c"], c))
                    rel[f] = None
                    cur[f] = c
                else:
                    ensure(f, c)
                evs.append("EEnter %d" % c)
                entered.append((c, 1 if queued.get(c) else 0))
                queued[c] = False
                continue
            ensure(f, c)
            if name in ("st", "h", "o"):
                pass
            elif name == "q":
                evs.append("EReq %d %s" % (c, "true" if arg == "S" else "false"))
                phase[c], kind[c] = "try0", "lock"
            elif name == "t":
                evs.append("ETryBegin %d" % c)
                phase[c], kind[c] = "try0", "try"
            elif name in ("ty", "tn"):
                tries.append((c, 1 if name == "ty" else 0))
            elif name == "x":
                u = {"A": "UAwait", "H": "UHere", "S": "USticky"}.get(arg)
                if u is None:
                    mo = re.match(r"O(\d+)$", arg)
                    u = "(UOn %s)" % mo.group(1)
                evs.append("ELeave %d %s" % (c, u))
                rel[f] = dict(c=c, form=arg[0], stage="start")
            elif name == "f":
                evs.append("EFinish %d" % c)
                cur[f] = None
            else:
                raise ValueError("unknown marker " + tok)
            continue
        mm = re.match(r"([a-z_]+)@s=(\S+)$", rest)
        if not mm:
            raise ValueError("unknown trace token " + tok)
        op, val = mm.group(1), mm.group(2)
        if op == "load" and val != word:
            raise ValueError("load returned %s but the word holds %s: %s" % (val, word, tok))
        flush_check(f, op == "load")
        r = rel.get(f)
        if r:
            c = r["c"]
            if r["stage"] in ("start", "assert") and op == "load":
                evs.append("ERAssert %d %s" % (c, ptr(val)))
                r["stage"] = "check"
            elif r["stage"] == "load" and op == "load":
                evs.append("ERLoad %d %s" % (c, ptr(val)))
                r["stage"] = "cas" if val == "L" else "slow"
            elif r["stage"] == "cas" and op == "compare_exchange_strong":
                ok = val != word
                evs.append("ERCas %d %s" % (c, "true" if ok else "false"))
                if ok:
                    rel[f] = None
                else:
                    r["stage"] = "slow"
            elif r["stage"] == "slow" and op == "exchange":
                evs.append("ERXchg %d %s" % (c, ptr(word)))
            else:
                raise ValueError("unexpected operation inside a release (%s): %s" % (r["stage"], tok))
            word = val
            continue
        c = cur.get(f)
        if c is None:
            raise ValueError("operation on the sender word by a fiber that runs no coroutine: " + tok)
        ph = phase.get(c)
        if ph == "try0" and op == "load":
            evs.append("ETLoad %d %s" % (c, ptr(val)))
            phase[c] = "trycas" if val == "N" else ("lock0" if kind[c] == "lock" else None)
        elif ph == "trycas" and op == "compare_exchange_strong":
            ok = val != word
            evs.append("ETCas %d %s" % (c, "true" if ok else "false"))
            phase[c] = None if ok else ("lock0" if kind[c] == "lock" else None)
        elif ph == "lock0" and op == "load":
            evs.append("ELLoad %d %s" % (c, ptr(val)))
            phase[c] = "loop"
        elif ph == "loop" and op == "compare_exchange_weak":
            if val != word:
                if val == "L":
                    evs.append("ELCasN %d" % c)
                elif val == "W%d" % c:
                    evs.append("EPush %d" % c)
                    queued[c] = True
                    cur[f] = None
                else:
                    raise ValueError("unexpected successful CAS: " + tok)
                phase[c] = None
            else:
                evs.append("ELFail %d %s" % (c, ptr(val)))
        elif ph == "loop" and op == "load":   # the fault layer's spurious failure of compare_exchange_weak reloads expected
            evs.append("ELFail %d %s" % (c, ptr(val)))
        else:
            raise ValueError("unexpected operation on the sender word (%s): %s" % (ph, tok))
        word = val
    params = "%s %s [%s] [%s]" % ("true" if fifo else "false", "true" if batching else "false",
                                  "; ".join(map(str, wexe)), "; ".join(map(str, homes)))
    return params, evs, entered, tries


def contended(trace):
    """Non-trivial: some coroutine actually queued (a pushing CAS succeeded), or a CAS on the sender word failed, or a
    TryLock was refused."""
    w = "N"
    for tok in trace.split(";"):
        mm = re.match(r"[^:]+:([a-z_]+)@s=(\S+)$", tok)
        if not mm:
            if re.match(r"[^:]+:!tn\d+$", tok):
                return True
            continue
        op, val = mm.group(1), mm.group(2)
        if op.startswith("compare_exchange") and val == w:
            return True
        if val.startswith("W"):
            return True
        w = val
    return False


def explore(exe, args, timeout):
    return runner.run_harness(exe, args, timeout=timeout)


OPTS = ["b0f0", "b0f1", "b1f0", "b1f1"]
LOCKS = {"L": "aoh", "G": "aohd", "S": "aohd", "T": "aoh", "U": "aohd"}


def plan(ck):
    """(scenario selector, harness arguments, claims exhaustive?)"""
    quick = ck.tier != "thorough"
    seed = str(ck.seed)
    big = ["--max", "100000000"]
    named = ["--param", "yields=named"]
    P = []
    # exhaustive DFS, 2 coroutines x 1 round (every lock form x unlock form x 3 partners x 4 options) and 3 coroutines
    # behind a holder that hops, one worker, manual executor (every yield point) and FairThreadPool(1) (named yields)
    for o in OPTS:
        P.append((["--only", "k2/%s/man1/" % o], ["--mode", "dfs"] + big, True))
        P.append((["--only", "k3/%s/man1/" % o], ["--mode", "dfs", "--max", "3000000"], True))
        P.append((["--only", "k2/%s/pool1/" % o], ["--mode", "dfs"] + big + named, True))
        P.append((["--only", "k3/%s/pool1/" % o], ["--mode", "dfs", "--max", "3000000"] + named, True))
    return P


def main(ck):
    ck.assumptions = []
    ck.cov["trusted_base"] = []
    ck.prove("props/Properties_C14.v", ["model/CoMutexObs.vo"])
