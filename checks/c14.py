"""C14 — coroutine Mutex<Batching, FIFO>: mutual exclusion, TryLock only when free, no lost wake-up, every request granted
exactly once (also on one worker), FIFO grant order.
Proof: coq/props/Properties_C14.v (invariant of the CoMutex LTS: any number of coroutines, rounds, workers, executors; the
       four option combinations are parameters of the initial state).
Tie:   the real yaclib::Mutex (FIBER backend) used by coroutines on FairThreadPool(1|2) and on an instrumented manual
       executor (workers pick any queued job) plus a plain bystander thread calling TryLock, explored exhaustively
       (DFS) for the small configurations and by seeded random walks for the larger ones; every distinct trace is mapped
       to CoMutex.v events and replayed through CoMutex.run inside Coq: the model must accept every event with the
       observed value and predict the observed order of critical sections / TryLock answers / quiescence.
Oracle (property text only) runs inside the harness on every execution."""
import concurrent.futures, json, os, re, time
import vlib, runner

HARNESS = os.path.join(vlib.VERIF, "harness", "h_c14.cpp")
BY_EXE = 9   # the executor id standing for the bystander's own thread


def ptr(v):
    if v == "N":
        return "PN"
    if v == "L":
        return "PL"
    m = re.match(r"W(\d+)$", v)
    if not m:
        raise ValueError("unknown value of the sender word: " + v)
    return "(PW %s)" % m.group(1)


def to_events(trace):
    """Implementation trace -> (model parameters, events, observed CS entries [(c, queued)], observed TryLock answers).
    Purely syntactic: every token of a worker is an event of the coroutine / release procedure that worker is executing;
    the value returned by an exchange and the success of a CAS are reconstructed from the previous value of the word
    (the FIBER backend is sequentially consistent); the unobservable plain read `_receiver != nullptr` of
    TryUnlockAwait is emitted when the releasing thread's next token shows which way it went (ERCheck); a worker that
    shows a coroutine it was not running has taken it from its queue (EStart), or received it by symmetric transfer
    from the release procedure it was executing (ERTransfer)."""
    toks = [t for t in trace.split(";") if t]
    m = re.match(r"main:!cfg B=(\d) F=(\d) W=([\d,]*) H=([\d,]*) Y=(\d)$", toks[0])
    if not m:
        raise ValueError("no cfg token: " + toks[0])
    batching, fifo = m.group(1) == "1", m.group(2) == "1"
    nworkers = [int(x) for x in m.group(3).split(",") if x]
    homes = [int(x) for x in m.group(4).split(",") if x]
    by = m.group(5) == "1"
    k = len(homes)
    wexe, base = [], []
    for e, n in enumerate(nworkers):
        base.append(len(wexe))
        wexe += [e] * n
    if by:
        by_slot = len(wexe)
        wexe.append(BY_EXE)
        homes = homes + [BY_EXE]
    slot = {}                      # fiber name -> worker slot
    used = [0] * len(nworkers)     # pool: slots handed out per executor
    where = dict((c, homes[c]) for c in range(len(homes)))   # executor each coroutine was last submitted to
    cur, rel = {}, {}              # fiber -> coroutine it runs / release procedure it executes
    phase = {}                     # coroutine -> 'try0' | 'trycas' | 'lock0' | 'loop'
    kind = {}                      # coroutine -> 'try' | 'lock'
    queued = {}                    # coroutine -> its current request was pushed
    word = "N"
    evs, entered, tries = [], [], []
    try_pending = {}               # coroutine -> index in tries of its TryLock whose answer marker has not been seen yet

    def slot_of(f, c):
        if f in slot:
            return slot[f]
        mm = re.match(r"w(\d+)\.(\d+)$", f)
        if mm:
            slot[f] = base[int(mm.group(1))] + int(mm.group(2))
        elif f == "Y":
            slot[f] = by_slot
        else:                       # a pool worker: it serves the executor c was submitted to
            e = where[c]
            if used[e] >= nworkers[e]:
                raise ValueError("more worker fibers than workers on executor %d" % e)
            slot[f] = base[e] + used[e]
            used[e] += 1
        return slot[f]

    def flush_check(f, is_load):
        r = rel.get(f)
        if r and r["stage"] == "check":
            evs.append("ERCheck %d %s" % (r["c"], "true" if is_load else "false"))
            r["stage"] = "load" if is_load else "slow"

    def ensure(f, c):
        if cur.get(f) != c:
            if rel.get(f):
                raise ValueError("fiber %s shows coroutine %d in the middle of a release" % (f, c))
            evs.append("EStart %d %d" % (slot_of(f, c), c))
            cur[f] = c

    for tok in toks[1:]:
        f, _, rest = tok.partition(":")
        if f == "main":
            continue
        if rest.startswith("!"):
            mm = re.match(r"([a-z]+)(\d+)(?: (\S+))?$", rest[1:])
            if not mm:
                raise ValueError("unknown marker " + tok)
            name, num, arg = mm.group(1), int(mm.group(2)), mm.group(3)
            if name == "run":
                continue
            if name == "sub":
                e, n = num, int(arg)
                flush_check(f, False)
                r = rel.get(f)
                if r:
                    c = r["c"]
                    if r["stage"] == "start" and n == c and r["form"] in ("O", "S"):
                        evs.append("ERSelf %d %d" % (c, e))
                        r["stage"] = "assert"
                        r["form"] = "O"
                        where[c] = e
                        cur[f] = None
                    elif r["stage"] == "slow" and r["form"] == "A" and n == c:
                        evs.append("ERBatchSubmit %d %d" % (c, e))
                        r["stage"] = "xfer"
                        where[c] = e
                        cur[f] = None
                    elif r["stage"] == "slow":
                        evs.append("ERSubmitNext %d %d %d" % (c, n, e))
                        where[n] = e
                        rel[f] = None
                    else:
                        raise ValueError("unexpected Submit inside a release: " + tok)
                else:
                    if cur.get(f) != n:
                        raise ValueError("Submit of a coroutine that is not running here: " + tok)
                    evs.append("EHop %d %d" % (n, e))
                    where[n] = e
                    cur[f] = None
                continue
            c = num
            if name == "in":
                flush_check(f, False)
                r = rel.get(f)
                if r:
                    if r["stage"] not in ("slow", "xfer"):
                        raise ValueError("transfer at an unexpected point: " + tok)
                    evs.append("ERTransfer %d %d" % (r["c"], c))
                    rel[f] = None
                    cur[f] = c
                else:
                    ensure(f, c)
                evs.append("EEnter %d" % c)
                entered.append((c, 1 if queued.get(c) else 0))
                queued[c] = False
                continue
            ensure(f, c)
            if name in ("st", "h", "o"):
                pass
            elif name == "n":
                evs.append("EFresh %d" % c)
            elif name == "q":
                evs.append("EReq %d %s" % (c, "true" if arg == "S" else "false"))
                phase[c], kind[c] = "try0", "lock"
            elif name == "t":
                evs.append("ETryBegin %d" % c)
                phase[c], kind[c] = "try0", "try"
            elif name in ("ty", "tn"):
                # the answer is the coroutine's own marker; its place in the order of answers is the operation that decided
                # it (with --yield-at after/both other threads' operations may lie between the operation and the marker)
                if c not in try_pending:
                    raise ValueError("TryLock answer without a deciding operation: " + tok)
                tries[try_pending.pop(c)] = (c, 1 if name == "ty" else 0)
            elif name == "x":
                u = {"A": "UAwait", "H": "UHere", "S": "USticky"}.get(arg)
                if u is None:
                    mo = re.match(r"O(\d+)$", arg)
                    u = "(UOn %s)" % mo.group(1)
                evs.append("ELeave %d %s" % (c, u))
                rel[f] = dict(c=c, form=arg[0], stage="start")
            elif name == "f":
                evs.append("EFinish %d" % c)
                cur[f] = None
            else:
                raise ValueError("unknown marker " + tok)
            continue
        mm = re.match(r"([a-z_]+)@s=(\S+)$", rest)
        if not mm:
            raise ValueError("unknown trace token " + tok)
        op, val = mm.group(1), mm.group(2)
        if op == "load" and val != word:
            raise ValueError("load returned %s but the word holds %s: %s" % (val, word, tok))
        flush_check(f, op == "load")
        r = rel.get(f)
        if r:
            c = r["c"]
            if r["stage"] in ("start", "assert") and op == "load":
                evs.append("ERAssert %d %s" % (c, ptr(val)))
                r["stage"] = "check"
            elif r["stage"] == "load" and op == "load":
                evs.append("ERLoad %d %s" % (c, ptr(val)))
                r["stage"] = "cas" if val == "L" else "slow"
            elif r["stage"] == "cas" and op == "compare_exchange_strong":
                ok = val != word
                evs.append("ERCas %d %s" % (c, "true" if ok else "false"))
                if ok:
                    rel[f] = None
                else:
                    r["stage"] = "slow"
            elif r["stage"] == "slow" and op == "exchange":
                evs.append("ERXchg %d %s" % (c, ptr(word)))
            else:
                raise ValueError("unexpected operation inside a release (%s): %s" % (r["stage"], tok))
            word = val
            continue
        c = cur.get(f)
        if c is None:
            raise ValueError("operation on the sender word by a fiber that runs no coroutine: " + tok)
        ph = phase.get(c)
        if ph == "try0" and op == "load":
            evs.append("ETLoad %d %s" % (c, ptr(val)))
            phase[c] = "trycas" if val == "N" else ("lock0" if kind[c] == "lock" else None)
            if kind[c] == "try" and val != "N":
                try_pending[c] = len(tries)
                tries.append(None)
        elif ph == "trycas" and op == "compare_exchange_strong":
            ok = val != word
            evs.append("ETCas %d %s" % (c, "true" if ok else "false"))
            phase[c] = None if ok else ("lock0" if kind[c] == "lock" else None)
            if kind[c] == "try":
                try_pending[c] = len(tries)
                tries.append(None)
        elif ph == "lock0" and op == "load":
            evs.append("ELLoad %d %s" % (c, ptr(val)))
            phase[c] = "loop"
        elif ph == "loop" and op == "compare_exchange_weak":
            if val != word:
                if val == "L":
                    evs.append("ELCasN %d" % c)
                elif val == "W%d" % c:
                    evs.append("EPush %d" % c)
                    queued[c] = True
                    cur[f] = None
                else:
                    raise ValueError("unexpected successful CAS: " + tok)
                phase[c] = None
            else:
                evs.append("ELFail %d %s" % (c, ptr(val)))
        elif ph == "loop" and op == "load":   # the fault layer's spurious failure of compare_exchange_weak reloads expected
            evs.append("ELFail %d %s" % (c, ptr(val)))
        else:
            raise ValueError("unexpected operation on the sender word (%s): %s" % (ph, tok))
        word = val
    if try_pending:
        raise ValueError("TryLock without an answer marker")
    params = "%s %s [%s] [%s]" % ("true" if fifo else "false", "true" if batching else "false",
                                  "; ".join(map(str, wexe)), "; ".join(map(str, homes)))
    return params, evs, entered, tries


def contended(trace):
    """Non-trivial: some coroutine actually queued (a pushing CAS succeeded), or a CAS on the sender word failed, or a
    TryLock was refused."""
    w = "N"
    for tok in trace.split(";"):
        mm = re.match(r"[^:]+:([a-z_]+)@s=(\S+)$", tok)
        if not mm:
            if re.match(r"[^:]+:!tn\d+$", tok):
                return True
            continue
        op, val = mm.group(1), mm.group(2)
        if op.startswith("compare_exchange") and val == w:
            return True
        if val.startswith("W"):
            return True
        w = val
    return False


def explore(exe, args, timeout):
    return runner.run_harness(exe, args, timeout=timeout)


OPTS = ["b0f0", "b0f1", "b1f0", "b1f1"]
NAMED = ["--param", "yields=named"]


def plan(ck):
    """(scenario selector, harness arguments, claims exhaustive?)"""
    quick = ck.tier != "thorough"
    seed = str(ck.seed)
    big = ["--max", "100000000"]
    P = []
    for o in OPTS:
        # exhaustive DFS over every yield point: k = 2, r = 1 on ONE worker, every lock form x unlock form x 3 partners,
        # without and with the holder being rescheduled inside its critical section (k2h: the partner queues behind it)
        P.append((["--only", "k2/%s/man1/" % o], ["--mode", "dfs"] + big, True))
        P.append((["--only", "k2h/%s/man1/" % o], ["--mode", "dfs"] + big, True))
        # the same with one spurious weak-CAS failure
        P.append((["--only", "k2h/%s/man1/" % o], ["--mode", "dfs", "--weak", "1"] + big, True))
        # FairThreadPool(1): exhaustive for the named yield points (sender word + inside the critical section)
        P.append((["--only", "k2h/%s/pool1/" % o], ["--mode", "dfs"] + big + NAMED, True))
        # guard OBJECTS (UniqueGuard / StickyGuard constructed with std::defer_lock or reused after an unlock, then
        # g.TryLock() / co_await g.Lock(), moved and swapped) against a plain holder: exhaustive on one worker, without (the
        # TryLock succeeds) and with (k2gh: it fails / the Lock queues) the holder rescheduled inside its critical section
        P.append((["--only", "k2g/%s/man1/" % o], ["--mode", "dfs"] + big, True))
        P.append((["--only", "k2gh/%s/man1/" % o], ["--mode", "dfs"] + big, True))
        P.append((["--only", "k2gh/%s/man1/" % o], ["--mode", "dfs", "--weak", "1"] + big, True))
        P.append((["--only", "k2gh/%s/pool1/" % o], ["--mode", "dfs"] + big + NAMED, True))
        P.append((["--only", "k2g/%s/man2/" % o], ["--mode", "dfs", "--pb", "2", "--max", "30" if quick else "300"] + NAMED, False))
        P.append((["--only", "k2gh/%s/man2/" % o], ["--mode", "random", "--max", "8" if quick else "40", "--seed", seed, "--weak", "1"], False))
        P.append((["--only", "k2gh/%s/pool2/" % o], ["--mode", "random", "--max", "4" if quick else "30", "--seed", seed, "--weak", "1"], False))
        # three coroutines behind a holder that hops, one worker
        for u in "aoh":
            P.append((["--exact", "k3/%s/man1/%s" % (o, u)], ["--mode", "dfs"] + big, True))
            nb = "250" if quick else "2000"
            P.append((["--exact", "k3/%s/pool1/%s+y" % (o, u)], ["--mode", "dfs", "--pb", "2", "--max", nb] + NAMED, False))
            P.append((["--exact", "k3/%s/man1/%s+y" % (o, u)], ["--mode", "dfs", "--pb", "2", "--max", nb] + NAMED, False))
        # two workers: really concurrent lock / unlock
        if quick:
            P.append((["--only", "k2/%s/man2/" % o], ["--mode", "dfs", "--pb", "2", "--max", "60"] + NAMED, False))
            P.append((["--only", "k2h/%s/man2/" % o], ["--mode", "random", "--max", "12", "--seed", seed, "--weak", "1"], False))
        else:
            P.append((["--only", "k2/%s/man2/" % o], ["--mode", "dfs", "--pb", "2", "--max", "600"] + NAMED, False))
            P.append((["--only", "k2h/%s/man2/" % o], ["--mode", "random", "--max", "60", "--seed", seed, "--weak", "1"], False))
            for sc in ("La-0", "Lh-1", "Lo-0", "Sa-2"):
                P.append((["--exact", "k2/%s/man2/%s" % (o, sc)], ["--mode", "dfs"] + big + NAMED, True))
            P.append((["--exact", "k2/%s/man2/La-0" % o], ["--mode", "dfs", "--weak", "1"] + big + NAMED, True))
        n3 = "40" if quick else "200"
        for ex in ("man2", "pool2"):
            P.append((["--only", "k3/%s/%s/" % (o, ex)], ["--mode", "random", "--max", n3, "--seed", seed, "--weak", "1"], False))
        P.append((["--only", "k2h/%s/pool2/" % o], ["--mode", "random", "--max", "4" if quick else "40", "--seed", seed, "--weak", "1"], False))
    # seeded random programs: k <= 4 coroutines x r <= 3 rounds x 4 options x mixed forms, 1-2 executors with 1-2 workers
    nmix, nexec = (24, "60") if quick else (160, "250")
    for i in range(8):
        P.append((["--only", "mix/", "--param", "mixes=%d" % (nmix // 8), "--param", "pseed=%d" % (ck.seed * 8 + i)],
                  ["--mode", "random", "--max", nexec, "--seed", str(ck.seed + i), "--weak", "1"], False))
    # where the explorer offers a fiber switch: every DFS suite runs twice, with the switch BEFORE each wrapped operation and
    # with the switch AFTER it (a thread stopped between its CAS / exchange and the plain code that follows); the random
    # walks switch at both places
    Q = []
    for sel, args, exh in P:
        if "dfs" in args:
            Q.append((sel, args + ["--yield-at", "before"], exh))
            Q.append((sel, args + ["--yield-at", "after"], exh))
        else:
            Q.append((sel, args + ["--yield-at", "both"], exh))
    return Q


def yield_at_of(args):
    return args[args.index("--yield-at") + 1] if "--yield-at" in args else "before"


def main(ck):
    ck.assumptions = [
        "FIBER backend: sequentially consistent, switches only at the wrapped yaclib_std operations (memory-order effects of the sender word are C04's subject)",
        "the model is CoMutex.v: the sender word / receiver list protocol of MutexImpl and the awaiters and guards built on it; a guard object's owns bit is, in the model, the coroutine owning the lock (pc PGot/PIn: a failed TryLock leaves it not owning and only an owner can start a release, so an unlock by a non-owning guard is a trace the model rejects); that OwnsLock() equals the last answer and follows move/Swap is checked by the harness oracle only; the coroutine frames, the Future machinery and the executors' own code are exercised, not modelled; an executor is modelled by its contract only (a submitted coroutine is started once, at any time, by a worker of that executor)",
        "a holder's critical section ends (it releases in one of the forms); only the holder unlocks; a coroutine is resumed only by the executor it was submitted to",
        "tracer reads the word's value through the YACLIB_VERIF after-hook (first 8 bytes of the atomic object); debug build: TryUnlockAwait's asserting load is live and is an event of the model",
        "plain (non-atomic) order `_receiver = next.next` before Submit(curr) in AwaitUnlock is folded into the hand-over event (the receiver list is private to the token holder)",
    ]
    ck.cov["trusted_base"] = [
        "Coq 8.16.1 kernel + vm_compute (used for replaying traces and in Example witnesses)",
        "Print Assumptions of every theorem in Properties_C14.v: Closed under the global context (no axioms)",
        "checks/c14.py trace-to-event mapping (syntactic; infers the unobservable `_receiver != nullptr` test from the releasing thread's next operation) and harness/h_c14.cpp oracle + instrumented executors",
        "YACLIB_VERIF hooks in the fault layer; FIBER scheduler and fiber atomics (C17-C19 are about those)",
    ]
    ck.prove("props/Properties_C14.v", ["model/CoMutexObs.vo"])
    exe, b = vlib.compile_harness("F", [HARNESS], "c14")
    P = plan(ck)
    t0 = time.time()
    results = []
    limit = 1500 if ck.tier == "thorough" else 170
    with concurrent.futures.ThreadPoolExecutor(max_workers=max(2, vlib.NPROC - 2)) as ex:
        futs = [(sel, args, exh, ex.submit(explore, exe, sel + args, limit)) for sel, args, exh in P]
        for sel, args, exh, f in futs:
            results.append((sel, args, exh, f.result()))
    heads, traces = [], []
    exhaustive_cfgs, bounded_cfgs, random_cfgs = [], [], []
    for sel, args, exh, (rows, out, err, rc) in results:
        label = " ".join(sel[1:2])
        if rc != 0:
            m = re.search(r"CRASH signal=(\d+) choices=([\d,]*)", out + err)
            if rc == 124:
                ck.notes.append("exploration of %s %s hit the time limit; its partial output is not used" % (label, " ".join(args)))
                continue
            # the scenario that crashed is the first selected one without a header line in the output
            done = set(r["scenario"] for r in rows if "mode" in r)
            lrows, lout, lerr, lrc = runner.run_harness(exe, sel + ["--list"], timeout=60)
            names = [n for n in lout.split("\n") if n and (n == sel[1] if sel[0] == "--exact" else sel[1] in n)]
            crashed = next((n for n in names if n not in done), label)
            weak = args[args.index("--weak") + 1] if "--weak" in args else "0"
            verdicts = re.findall(r"^ORACLE (.*)$", err or "", re.M)
            ck.hits.append(dict(what="harness crashed on %s (rc=%d) %s%s" % (crashed, rc, (out or "")[-300:].strip(),
                                     ("; oracle verdict before the crash: " + verdicts[-1]) if verdicts else ""), key="crash",
                                replay=dict(harness="h_c14", scenario=crashed, choices=m.group(2).strip(",") if m else None,
                                            weak=weak, yield_at=yield_at_of(args),
                                            params=[a for a in sel if "=" in a] + [a for a in args if a.startswith("yields=")])))
            continue
        hs = [r for r in rows if "mode" in r]
        heads += hs
        weak = args[args.index("--weak") + 1] if "--weak" in args else "0"
        yields = "named" if "yields=named" in args else "all"
        params = [a for a in sel if "=" in a] + [a for a in args if a.startswith("yields=")]
        ya = yield_at_of(args)
        for h in hs:
            if h["mode"] == "dfs" and h["exhaustive"]:
                exhaustive_cfgs.append((h["scenario"], h["executions"], h["distinct"], weak, yields, ya))
            elif h["mode"] == "dfs":
                bounded_cfgs.append((h["scenario"], h["executions"], h["distinct"], h["preemption_bound"]))
                if exh:
                    ck.notes.append("DFS of %s did not complete within --max; counted as bounded" % h["scenario"])
            else:
                random_cfgs.append((h["scenario"], h["executions"], h["distinct"]))
        for t in rows:
            if "trace" in t:
                t["weak"], t["params"], t["yield_at"] = weak, params, ya
                traces.append(t)
    ck.cov["evaluations"] = sum(h["executions"] for h in heads)
    ck.cov["exhaustive"] = False   # the exploration mixes exhaustive, bounded and random parts; see the breakdown
    def summ(cfgs):
        return dict(scenarios=len(cfgs), executions=sum(c[1] for c in cfgs), distinct_traces=sum(c[2] for c in cfgs))
    ck.cov["exhaustive_configurations"] = dict(summ(exhaustive_cfgs),
        one_worker_all_yields=sorted(set(c[0].rsplit("/", 1)[0] for c in exhaustive_cfgs if c[4] == "all"))[:40],
        named_yields=sorted(set(c[0].rsplit("/", 1)[0] for c in exhaustive_cfgs if c[4] == "named"))[:40],
        with_spurious_weak_cas_failure=sum(1 for c in exhaustive_cfgs if c[3] != "0"),
        switch_before_operation=summ([c for c in exhaustive_cfgs if c[5] == "before"]),
        switch_after_operation=summ([c for c in exhaustive_cfgs if c[5] == "after"]))
    ck.cov["bounded_configurations"] = summ(bounded_cfgs)
    ck.cov["random_configurations"] = summ(random_cfgs)
    ck.cov["explore_wall_s"] = round(time.time() - t0, 1)
    for t in traces:
        if t["fail"]:
            ck.hits.append(dict(what="%s: %s" % (t["scenario"], t["fail"]),
                                key=re.sub(r"\d+", "N", t["fail"])[:60],
                                replay=dict(harness="h_c14", scenario=t["scenario"], choices=t["choices"],
                                            trace=t["trace"], weak=t["weak"], yield_at=t["yield_at"], params=t["params"])))
    # ---- correspondence
    terms, metas, seen = [], [], set()
    for t in traces:
        if t["fail"]:
            continue
        try:
            params, evs, entered, tries = to_events(t["trace"])
        except ValueError as e:
            ck.gen_obligation("correspondence CoMutex (trace vocabulary)", False, "%s in %s: %s" % (e, t["scenario"], t["trace"]))
            continue
        term = "obs_nat %s [%s]" % (params, "; ".join(evs))
        if term in seen:
            continue
        seen.add(term)
        terms.append(term)
        metas.append((t, entered, tries, len(evs)))
    header = ("From Coq Require Import List. Import ListNotations.\n"
              "From YV Require Import model.CoMutex model.CoMutexObs.\n")
    t1 = time.time()
    res, logs = vlib.coq_eval_cases(header, terms, "c14", shard=400, timeout=1200) if terms else ([], [])
    ck.cov["replay_wall_s"] = round(time.time() - t1, 1)
    validated, nontriv, bad = 0, 0, []
    flat = lambda l: [x for p in l for x in p]
    for (t, entered, tries, nev), r in zip(metas, res):
        if r is None:
            bad.append((t, "model evaluation failed"))
            continue
        if r[0] == 0:
            bad.append((t, "model rejects event #%d of %d" % (r[1], nev)))
            continue
        quiescent, free, nrecv, ntok, alldone, ninside = r[1:7]
        i = 7
        ne = r[i]; ment = r[i + 1:i + 1 + 2 * ne]; i += 1 + 2 * ne
        nt = r[i]; mtry = r[i + 1:i + 1 + 2 * nt]; i += 1 + 2 * nt
        npush = r[i]; mpush = r[i + 1:i + 1 + npush]; i += 1 + npush
        nhand = r[i]; mhand = r[i + 1:i + 1 + nhand]; i += 1 + nhand
        ngrants = r[i]
        if ment != flat(entered) or mtry != flat(tries):
            bad.append((t, "model predicts entries %s TryLock answers %s, implementation showed %s %s" % (ment, mtry, flat(entered), flat(tries))))
        elif (quiescent, free, nrecv, ntok, alldone, ninside) != (1, 1, 0, 0, 1, 0):
            bad.append((t, "model not quiescent/free/finished at the end of the implementation run (quiescent=%d free=%d receiver=%d tokens=%d done=%d inside=%d)" % (quiescent, free, nrecv, ntok, alldone, ninside)))
        elif npush != nhand or sorted(mpush) != sorted(mhand) or ngrants != ne:
            bad.append((t, "model: %d arrivals but %d hand-overs, %d grants for %d entries" % (npush, nhand, ngrants, ne)))
        else:
            validated += 1
            if contended(t["trace"]):
                nontriv += 1
    ck.cov["traces_validated_against_impl"] = validated
    ck.cov["distinct_traces"] = len(traces)
    ck.cov["distinct_model_replays"] = len(terms)
    ck.cov["distinct_nontrivial"] = nontriv
    ck.cov["rule"] = ("every distinct implementation trace (operations on the sender word with their values, executor Submit markers, "
                      "coroutine markers) mapped to CoMutex.v events and replayed with vm_compute; the model must accept every event and "
                      "predict the order of critical-section entries (and which of them had queued), every TryLock answer, and end "
                      "quiescent / free / all finished with arrivals = hand-overs.  Every DFS suite runs twice: with the fiber switch offered BEFORE "
                      "each wrapped operation and (--yield-at after) AFTER it, so that a thread is also stopped between its CAS / exchange and "
                      "the plain code that follows; random walks switch at both places.  Exhaustive DFS over every scheduling decision (switch "
                      "before every wrapped operation, next fiber, which queued job a worker picks) for k = 2 coroutines x 1 round on ONE "
                      "worker of the manual executor: 18 lock/unlock form pairs x 3 partners x 4 <Batching,FIFO> options, without and with "
                      "the holder rescheduled inside its critical section, also with one spurious weak-CAS failure; 6 guard-OBJECT forms (deferred / "
                      "reused UniqueGuard and StickyGuard: g.TryLock() succeeding and failing, co_await g.Lock(), move, Swap) x 4 unlock forms "
                      "against a plain holder; for 3 coroutines "
                      "behind a hopping holder; 'yields=named' DFS (switch only before operations on the sender word and inside critical "
                      "sections; exhaustive for that decision set) on FairThreadPool(1) and, thorough tier, for 8 form pairs x 4 options on "
                      "TWO workers; preemption-bounded DFS (--pb, NOT exhaustive) for the bystander TryLock thread and for all form pairs "
                      "on two workers; seeded random walks (--weak 1) for 3 coroutines on 2 workers / FairThreadPool(2) and for random "
                      "programs (k <= 4, r <= 3, mixed forms, hops, 1-2 executors x 1-2 workers, bystander); non-trivial = a pushing CAS "
                      "succeeded (somebody queued), or a CAS on the sender word failed, or a TryLock was refused")
    pick = lambda pred: [x for x in traces if pred(x) and contended(x["trace"])][:1]
    ck.cov["samples"] = [dict(scenario=t["scenario"], trace=t["trace"], choices=t["choices"], executions=t["count"])
                         for t in (pick(lambda x: x["scenario"].startswith("k2h/b1f1/man1/")) +
                                   pick(lambda x: x["scenario"].startswith("k3/b1f0/man1/")) +
                                   pick(lambda x: x["scenario"].startswith("k2/b0f1/man2/")) +
                                   pick(lambda x: x["scenario"].startswith("mix/") and " pool " in x["scenario"]))]
    for t, why in bad[:10]:
        ck.broken.append(dict(name="correspondence CoMutex.run vs implementation on %s" % t["scenario"],
                              detail="%s\ntrace: %s\nchoices: %s\nweak: %s yield-at: %s params: %s" % (why, t["trace"], t["choices"], t["weak"], t["yield_at"], " ".join(t["params"]))))
    if len(bad) > 10:
        ck.notes.append("%d traces in total disagree with the model" % len(bad))
    if not traces:
        ck.broken.append(dict(name="correspondence CoMutex.run vs implementation", detail="harness produced no traces"))
    # ---- "what one critical section wrote is visible in the next": a memory-order clause the sequentially consistent
    # FIBER exploration cannot see.  It is decided by C04's machinery (RAOwn over the orders translated from
    # include/yaclib/coro/mutex.hpp: c04_mutex_orders_ok; TSan program coro_mutex); that part runs here too and its
    # coroutine-mutex verdicts count for C14.
    from checks import c04
    sub = runner.Check("C04", ck.tier, ck.seed)
    c04.main(sub)
    n_h = n_b = 0
    for h in sub.hits:
        if "coro_mutex" in h["what"]:
            n_h += 1
            ck.hits.append(dict(what="[C04 machinery, visibility between critical sections] %s" % h["what"], key="viaC04:%s" % h.get("key"),
                                replay=dict(h.get("replay") or {}, via="C04")))
    for b in sub.broken:
        if "c04_mutex_orders_ok" in b["name"]:
            n_b += 1
            ck.broken.append(dict(name="[C04 machinery] " + b["name"], detail=b["detail"]))
    ck.cov["visibility_clause_via_C04"] = dict(race_reports=n_h, obligations_broken=n_b, obligation="c04_mutex_orders_ok",
                                               tsan_program="coro_mutex")



def replay(ck, path):
    d = json.load(open(path))
    rp = d.get("replay") or {}
    if rp.get("via") == "C04":
        from checks import c04
        return c04.replay(ck, path)
    if not rp.get("scenario") or rp.get("choices") is None:
        print("nothing to replay: %s" % json.dumps(d)[:2000])
        return 0
    exe, b = vlib.compile_harness("F", [HARNESS], "c14")
    args = ["--mode", "replay", "--exact", rp["scenario"], "--choices", rp["choices"], "--weak", str(rp.get("weak", "0")),
            "--yield-at", rp.get("yield_at", "before")]
    for p in rp.get("params", []):
        args += ["--param", p]
    rows, out, err, rc = runner.run_harness(exe, args)
    print(out[-6000:])
    bad = any(r.get("fail") for r in rows if "trace" in r)
    print("replay: %s" % ("the failure reproduces" if bad or rc != 0 else "no failure"))
    return 1 if bad or rc != 0 else 0
