"""C09 — WhenAll / Join complete once, at the right moment, with every input's value at its index.
Proof: coq/props/Properties_C09.v (inductive invariant of the When transition system: any number of inputs, all
       schedules, all result patterns; strategies All<None>, All<FirstFail>, AllTuple<*>, Join<*>).
Tie:   the real WhenAll / Join (public entry points, FIBER backend) run against n <= 4 racing producers; every explored
       execution is mapped to events of When.v and replayed through the model, which must accept every event with the
       observed values and predict the observed output; the oracle (property text only) judges every execution."""
from checks import when_common as wc


def main(ck):
    wc.run_check(ck, "C09", "h_c09", 8, "props/Properties_C09.v", shared_parts=(0, 1, 2), shared_sets=("P09", "S09"))


def replay(ck, path):
    return wc.replay_hit(ck, path, "h_c09", 8)
