"""C05 — executors: every job is Called xor Dropped, and steps run where they were told.
Proof: coq/props/Properties_C05.v — over model/Place.v (Pipe.core_run generalised to executors that start refusing at any
       Submit, with a job log and `co_await On(e)` segments; proofs/PlaceProofs.v) and model/ExecSimple.v (Inline, Manual as
       transition systems; Strand and FairThreadPool re-exported from C07 / C08 in one contract; proofs/ExecSimpleProofs.v).
Tie:   program correspondence with C02's table and interpreter (harness/h_c05.cpp reuses h_c02_lib.hpp).  The programs'
       three manual executors are instrumented wrappers around real ManualExecutors: they count Submit / Call / Drop per job,
       stamp "executor, job, Call|Drop" around every Call / Drop so that each callback records where it runs, and refuse from
       their k-th Submit on.  Cases = programs (C02's alphabets + seeded random, executors re-assigned per step among
       m0 m1 m2 / MakeInline() / MakeInline(StopTag)) x every (executor x, position k <= submissions to x + 1); plus coroutine
       sources with `co_await On(e)` segments, final continuations (Detach / Subscribe) and Task pipelines started with
       ToFuture(e) / Detach(e) / Cancel() / Detach() / ToFuture() (Place.dlazy: the start replaces the head's executor).  The same cases are evaluated by
       Place.drun inside Coq: final Result, ordered (callback id, argument) list, the stamp of every invocation handed to an
       instrumented executor, every job's executor / index / fate, the executor the final core holds.
Oracle: harness/h_c05.cpp Walk5 + the checks in RunCase — written from the property text only, in-process.
Stop-vs-Submit interleavings of Strand and FairThreadPool are explored by C07 / C08 (their evidence is cited)."""
import concurrent.futures, json, os, random, re, subprocess, time
import vlib, runner
from checks import pipelib as L
import gen_pipeline_table as T

HARNESS = os.path.join(vlib.VERIF, "harness", "h_c05.cpp")
EXECS = ["m0", "m1", "m2"]
KEY_S5 = "s5-shared-await-swaps-executor"

# ------------------------------------------------------------------------------------------------ executors per step

def exec_slots(p, acc=None):
    """(container, setter) for every place where the program names an executor that may be any executor"""
    acc = [] if acc is None else acc
    s = p["src"]

    def fn(f):
        if f["beh"][0] == "async":
            exec_slots(f["beh"][1], acc)
    if s[0] == "contract" and s[1] == "O":
        acc.append(("src", p, 3))
    elif s[0] == "run":
        if s[1] in ("O", "SO", "T"):
            acc.append(("src", p, 2))
        fn(s[3])
    elif s[0] == "prom" and s[1] in ("O", "SO", "T"):
        acc.append(("src", p, 3))
    for i, o in enumerate(p["ops"]):
        if o[0] == "then":
            if isinstance(o[1], tuple):
                acc.append(("op", p, i))
            fn(o[2])
    return acc


def assign(p, choice):
    """a copy of p in which the k-th executor slot is choice[k]"""
    q = L.clone(p)
    for (kind, cont, idx), e in zip(exec_slots(q), choice):
        if kind == "src":
            s = list(cont["src"])
            s[idx] = e
            cont["src"] = tuple(s)
        else:
            o = cont["ops"][idx]
            cont["ops"][idx] = ("then", ("on", e), o[2])
    return q


def current_execs(p):
    out = []
    for (kind, cont, idx) in exec_slots(p):
        out.append(cont["src"][idx] if kind == "src" else cont["ops"][idx][1][1])
    return out

# ------------------------------------------------------------------------------------------------ cases

def mk_case(p, rej=None, segs=None, detach=False, start=None):
    """start: None | ("tf", e) ToFuture(e) | ("td", e) Detach(e) | ("tc",) Cancel() | ("tdd",) Detach() — p then ends in a Task"""
    return dict(p=p, rej=rej, segs=segs or [], detach=detach, start=start)


def no_final(c):
    return c["detach"] or (c.get("start") is not None and c["start"][0] != "tf")


def wire_case(c):
    rej = "-" if c["rej"] is None else "%d:%d" % c["rej"]
    co = "-" if not c["segs"] else ",".join("%s.%d" % (e, i) for e, i in c["segs"])
    st = c.get("start")
    fin = "d" if c["detach"] else "-" if st is None else st[0] if len(st) == 1 else "%s.%s" % st
    return "%s %s %s %s" % (rej, co, fin, L.wire(c["p"]))


def gallina_case(c):
    rej = "None" if c["rej"] is None else "(Some (%d%%nat, %d%%nat))" % c["rej"]
    if c["segs"]:
        cid = c["p"]["src"][3]
        cel = "[(%d%%nat, [%s])]" % (cid, "; ".join("(%s, %d%%nat)" % (L.g_exec(e), i) for e, i in c["segs"]))
    else:
        cel = "[]"
    st = c.get("start")
    stt = "None" if st is None or st[0] == "tdd" else "(Some XStopped)" if st[0] == "tc" else "(Some %s)" % L.g_exec(st[1])
    return "(%s, %s, %s, %s)" % (stt, rej, cel, L.gallina(c["p"]))


def detach_cases(rng, n):
    """programs whose last step is attached as the final continuation"""
    out = []
    bases = []
    for tv in (0, 1):
        bases += [b for b in L.sources(tv, True) if b["src"][1] != "T"]
    for _ in range(n):
        p = L.clone(rng.choice(bases))
        for _k in range(rng.randrange(3)):
            wk, tv = L.world(p)
            st = rng.choice(L.steps(wk, tv, 0))
            p["ops"].append(L.clone(st))
        wk, tv = L.world(p)
        if wk == "T":
            continue
        par = rng.choice(["R", "E", "X", "N"] if tv else ["R", "E", "X", "V"])
        atts = ["inline", ("on", rng.choice(EXECS + ["s"]))] + (["inherit"] if "inherit" in T.ATT_OF_WK[wk] else [])
        beh = rng.choice([("ret", 1), ("throw", 3)])
        p["ops"].append(("then", rng.choice(atts), L.mkfn(par, "V", beh)))
        out.append(mk_case(L.number(p), detach=True))
    return out


def coro_cases(rng, n, full):
    out = []
    allsegs = [[a] for a in EXECS + ["i", "s"]] + [[a, b] for a in EXECS + ["s"] for b in EXECS + ["i", "s"]] + \
              [[a, b, c] for a in EXECS for b in EXECS for c in EXECS if a != b]
    srcs = []
    for tv in (0, 1):
        srcs += [b for b in L.sources(tv, True) if b["src"][0] == "coro"]
    combos = [(s, sg) for s in srcs for sg in allsegs]
    if not full:
        combos = rng.sample(combos, min(n, len(combos)))
    for s, sg in combos:
        for rep in range(2 if full else 1):
            p = L.clone(s)
            for _k in range(rng.randrange(4)):
                wk, tv = L.world(p)
                cand = L.steps(wk, tv, 0)
                if wk == "T" and rng.random() < 0.5:
                    cand = [c for c in cand if c[1] == "inherit"] or cand
                p["ops"].append(L.clone(rng.choice(cand)))
            p = L.finish(p)
            out.append(mk_case(p, segs=[(e, 900 + j) for j, e in enumerate(sg)]))
    return out


def lazy_heads(tv):
    st = [L.res_of(s, tv) for s in L.STATES]
    nf = lambda b: L.mkfn("N", "V" if tv else "I", b)
    return [{"src": ("run", "T", "m0", nf(("ret", 2))), "ops": []},        # Schedule(e1, f)
            {"src": ("run", "T", "i", nf(("ret", 2))), "ops": []},         # Schedule(f)'s executor
            {"src": ("ready", "T", tv, st[0]), "ops": []},                # MakeTask
            {"src": ("run", "T", "m1", L.mkfn("R", "RV" if tv else "RI", ("reserr", 4))), "ops": []},
            {"src": ("prom", "T", tv, "m2", 0, ("set", 0, st[0])), "ops": []},   # LazyContract(e1, f)
            {"src": ("coro", "T", tv, 0, st[0]), "ops": []},
            {"src": ("ready", "T", tv, st[1]), "ops": []},
            {"src": ("run", "T", "s", nf(("ret", 2))), "ops": []}]


STARTS = [("tf", "m0"), ("tf", "m1"), ("td", "m2"), ("tc",), ("tdd",), ("tf", "s"), ("td", "m0"), ("tf", "i"), ("tf", "m2"), ("td", "m1")]


def lazy_cases(rng, n, full):
    """Task pipelines started with ToFuture(e) / Detach(e) / Cancel() / ToFuture() / Detach(): 1-4 steps mixing Then(f), Then(e, f),
    ThenInline(f); full: every attach pattern of length 2-4 x every head x every start form (callbacks sampled)"""
    import itertools
    pats = [pt for k in (1, 2, 3, 4) for pt in itertools.product(("inherit", "on", "inline"), repeat=k)]
    combos = [(tv, hi, pt, st) for tv in (0, 1) for hi in range(len(lazy_heads(0))) for pt in pats for st in STARTS]
    if not full:
        combos = rng.sample(combos, min(n, len(combos)))
    elif len(combos) > n:
        # all patterns x heads with a sampled start each, then the rest sampled
        combos = rng.sample(combos, n)
    out = []
    for tv, hi, pt, st in combos:
        p = L.clone(lazy_heads(tv)[hi])
        simple = rng.random() < 0.5
        for a in pt:
            wk, tvv = L.world(p)
            if simple:
                par = rng.choice(["R", "R", "N" if tvv else "V", "E"])
                ret = ("V" if tvv else "I") if par == "E" else rng.choice(["I", "V"])
                step = ("then", a, L.mkfn(par, ret, ("ret", rng.randrange(5))))
            else:
                step = L.clone(rng.choice(L.steps("T", tvv, 0)))
            att = ("on", rng.choice(EXECS + EXECS + ["s"])) if a == "on" else a
            p["ops"].append(("then", att, step[2]))
        p = L.number(p)
        out.append(mk_case(p, start=st))
        if st[0] == "tf" and rng.random() < 0.3:
            out.append(mk_case(L.finish(p)))   # the same pipeline started with ToFuture()
    return out


def base_cases(ck, rng):
    pick = lambda n, k: sorted(rng.sample(range(n), min(k, n)))
    thorough = ck.tier == "thorough"
    progs = []
    if thorough:
        plan, nsample2, nrandom, ndet, ncoro = [(0, True, 0), (1, False, 1)], 5000, 8000, 2000, 0
    else:
        plan, nsample2, nrandom, ndet, ncoro = [(0, True, 0), (1, False, 0)], 450, 600, 200, 200
    progs += L.enumerate_plan(plan, pick)
    n_small = len(progs)
    two = L.enumerate_plan([(2, False, 0)], pick)
    progs += rng.sample(two, min(nsample2, len(two)))
    n_enum = len(progs)
    cases = []
    for ip, p in enumerate(progs):
        cases.append(mk_case(p))
        slots = current_execs(p)
        if not slots:
            continue
        if thorough and len(slots) <= 2 and ip < n_small:
            # every assignment of instrumented executors, plus the refusing singleton in each position
            import itertools
            for ch in itertools.product(EXECS, repeat=len(slots)):
                cases.append(mk_case(assign(p, ch)))
            for i in range(len(slots)):
                ch = [rng.choice(EXECS) for _ in slots]
                ch[i] = "s"
                cases.append(mk_case(assign(p, ch)))
        else:
            cases.append(mk_case(assign(p, [rng.choice(EXECS + EXECS + ["i", "s"]) for _ in slots])))
    for _ in range(nrandom):
        p = L.random_program(rng, 3, 8)
        slots = current_execs(p)
        cases.append(mk_case(assign(p, [rng.choice(EXECS + EXECS + ["i", "s"]) for _ in slots])))
    cases += detach_cases(rng, ndet)
    cases += coro_cases(rng, ncoro, thorough)
    cases += lazy_cases(rng, 6000 if thorough else 450, thorough)
    return cases, n_enum, plan


def parse_jobs(row):
    """-> {x: [(fate, first_event), ...]}"""
    out = {0: [], 1: [], 2: []}
    if row.get("jobs"):
        for it in row["jobs"].split(","):
            x, seq, fate, first = it.split(":")
            out[int(x) - 1].append((fate, int(first)))
    return out


def rejections(c, row, rng, cap):
    """every (x, k): k <= submissions to m<x> + 1, for the executors that receive something (capped by sampling)"""
    jobs = parse_jobs(row)
    allr = [(x, k) for x in range(3) if jobs[x] for k in range(1, len(jobs[x]) + 2)]
    if cap is not None and len(allr) > cap:
        allr = rng.sample(allr, cap)
    return [dict(p=c["p"], rej=r, segs=c["segs"], detach=c["detach"], start=c.get("start")) for r in allr]

# ------------------------------------------------------------------------------------------------ Coq side

def coq_cases(terms, name, batch=30, per_file=1500):
    hdr = ("From Coq Require Import List ZArith. Import ListNotations.\nFrom YV Require Import model.Pipe model.PipeObs "
           "model.Place model.PlaceObs.\nLocal Open Scope Z_scope.\nSet Printing Depth 10000000.\nSet Printing Width 1000000.\n")
    n = len(terms)
    files = [(k, terms[k:k + per_file]) for k in range(0, n, per_file)]

    def one(job):
        k, cs = job
        body = [hdr]
        for j in range(0, len(cs), batch):
            body.append("Eval vm_compute in (obs_c05_many [%s])." % "; ".join(cs[j:j + batch]))
        nm = "%s_%d_%d" % (name, os.getpid(), k)
        ok, out = vlib.coqc_eval("\n".join(body) + "\n", nm, timeout=1500)
        res = []
        for m in re.finditer(r"=\s*(\[[^\]]*\]|nil)\s*:\s*list Z", out.replace("\n", " ")):
            nums = [int(x) for x in re.findall(r"-?\d+", m.group(1))]
            i = 0
            while i < len(nums):
                res.append(nums[i + 1:i + 1 + nums[i]])
                i += 1 + nums[i]
        if not ok or len(res) != len(cs):
            return k, [None] * len(cs), out[-3000:]
        return k, res, ""

    results, logs = [None] * n, []
    with concurrent.futures.ThreadPoolExecutor(max_workers=vlib.NPROC) as ex:
        for k, res, log in ex.map(one, files):
            results[k:k + len(res)] = res
            if log:
                logs.append(log)
    return results, logs


EXEC_NAME = {0: "i", 2: "s", 10: "m0", 11: "m1", 12: "m2"}


def decode(o):
    if o is None:
        return None
    if o[0] == 0:
        return dict(ran=0, typed=o[1])
    d = dict(ran=1, typed=o[1], agree=o[2], final=(o[3], o[4]), fexec=EXEC_NAME.get(o[5], "?"))
    n = o[6]
    i = 7
    evs = []
    for _ in range(n):
        evs.append(dict(id=o[i], ex=o[i + 1], sub=o[i + 2], inp=(o[i + 3], o[i + 4], o[i + 5])))
        i += 6
    m = o[i]
    i += 1
    jobs = []
    for _ in range(m):
        jobs.append(dict(id=o[i], ex=o[i + 1], idx=o[i + 2], call=o[i + 3]))
        i += 4
    d["events"], d["jobs"] = evs, jobs
    return d


BASE = 100000


def compare(c, row, d):
    """model prediction d against the implementation's row; returns None or a description of the difference"""
    final, evs = L.parse_row(row)
    ctxs = [int(e.rsplit("@", 1)[1]) for e in row["events"].split(",")] if row["events"] else []
    if not d["ran"]:
        return "Place.drun says the program does not compile, the compiler accepted it"
    nofin = no_final(c)
    if not d["typed"] and not c["detach"]:
        # (a final continuation may drop the value type: Detach(e, f(E)) -> void in an int world is outside Pipe's typing)
        return "Pipe.prog_ty rejects a program the compiler accepted"
    if not d["agree"]:
        return "drun and dseq disagree on this case"
    if not nofin and d["final"] != final:
        return "model predicts final %s, implementation showed %s" % (d["final"], final)
    mev = [(e["id"],) + e["inp"] for e in d["events"]]
    if mev != evs:
        return "model predicts calls %s, implementation showed %s" % (mev, evs)
    # jobs, per instrumented executor, in submission order
    got = parse_jobs(row)
    want = {0: [], 1: [], 2: []}
    stamp_of = {}
    invoked_ids = set(e["id"] for e in d["events"] if e["sub"])
    for j in d["jobs"]:
        if j["ex"] >= 10:
            x = j["ex"] - 10
            if j["idx"] != len(want[x]):
                return "model numbers job of step %d as %d-th of m%d, it is the %d-th in its log" % (j["id"], j["idx"], x, len(want[x]))
            want[x].append(j)
            stamp_of.setdefault(j["id"], (x + 1) * BASE + j["idx"] * 2 + (0 if j["call"] else 1))
    for x in range(3):
        if len(got[x]) != len(want[x]):
            return "model predicts %d submissions to m%d, implementation showed %d" % (len(want[x]), x, len(got[x]))
        for k, ((fate, first), j) in enumerate(zip(got[x], want[x])):
            if fate != ("C" if j["call"] else "D"):
                return "job %d of m%d: model predicts %s, implementation showed %s" % (k, x, "Call" if j["call"] else "Drop", fate)
            if j["id"] in invoked_ids and first != j["id"]:
                return "job %d of m%d: the model invokes step %d's callback in it, callback %d ran first in it" % (k, x, j["id"], first)
    # where every invocation handed to an instrumented executor ran
    for e, ctx in zip(d["events"], ctxs):
        if e["sub"] and e["ex"] >= 10:
            st = stamp_of.get(e["id"])
            if st is None:
                return "model has a submitted invocation of %d on m%d without a job" % (e["id"], e["ex"] - 10)
            if st != ctx:
                return "invocation of %d: model predicts stamp %d (executor, job, Call|Drop), implementation showed %d" % (e["id"], st, ctx)
    if not nofin and row.get("fexec") not in ("-", "") and row["fexec"] != d["fexec"]:
        return "final core holds %s, model predicts %s" % (row["fexec"], d["fexec"])
    if row.get("pend"):
        return "%d jobs left in a drained ManualExecutor" % row["pend"]
    return None


def features(c, d):
    """(non-trivial?, keys)"""
    keys = set()
    dropped = [j for j in d["jobs"] if not j["call"]]
    if dropped:
        keys.add("dropped-by-%s" % ("rejection" if any(j["ex"] >= 10 for j in dropped) else "stopped-inline"))
    on = set(e["ex"] for e in d["events"] if e["sub"] and e["ex"] >= 10)
    if len(on) >= 2:
        keys.add("two-instrumented-executors")
    w = L.wire(c["p"])
    if " inherit " in w and on:
        keys.add("inherit-with-instrumented")
    if c["segs"]:
        keys.add("coroutine-on")
    if c["detach"]:
        keys.add("final-continuation")
    if c.get("start") is not None:
        keys.add("task-started-%s" % {"tf": "ToFuture(e)", "td": "Detach(e)", "tc": "Cancel()", "tdd": "Detach()"}[c["start"][0]])
    if any(e["sub"] and e["inp"][0] in (0, 2) and e["inp"][1:] == (2, -1) for e in d["events"]):
        keys.add("callback-saw-StopError")
    return bool(keys), keys

# ------------------------------------------------------------------------------------------------ main

def run_impl(exe, cases, tag):
    return L.run_programs(exe, [wire_case(c) for c in cases], tag)


def s5_scenarios(ck, exe):
    """several consumers of one shared state, one of them a coroutine (finding S5, fixed by f1ffb7c): a Then(f) attached without an
    executor to a SharedFutureOn must run inside the chain's executor whichever consumer is served first and whatever executor the
    awaiting coroutine came from.  Oracle from the inheritance clause; failures carry the key of the finding."""
    try:
        r = subprocess.run([exe, "--s5"], stdout=subprocess.PIPE, stderr=subprocess.PIPE, text=True, timeout=120)
        out = r.stdout
    except subprocess.TimeoutExpired:
        out = ""
    rows = []
    for line in out.split("\n"):
        if line.startswith("{"):
            try:
                rows.append(json.loads(line))
            except Exception:
                pass
    ck.cov["shared_state_with_awaiting_coroutine"] = rows
    if len(rows) != 4:
        ck.broken.append(dict(name="S5 scenarios of harness h_c05 (--s5)", detail="expected 4 rows, got: %s" % out[-1500:]))
        return 0
    ok = 0
    for x in rows:
        desc = ("Then(f) attached without an executor to a SharedFutureOn whose chain is on m0, while a coroutine whose own executor is %s "
                "awaits the same shared state (consumer order %s): the continuation ran with stamp %s (executor %s), the shared core "
                "holds %s afterwards" % (x.get("coroutine_executor"), x.get("order"), x.get("then_stamp"),
                                         (x.get("then_stamp") or 0) // BASE, x.get("shared_core_executor_after")))
        if x.get("crash") is not None or x.get("then_ran_inside_m0") is not True:
            # property text: "runs on the executor inherited along the chain"
            ck.hits.append(dict(what=desc + "; it must run inside m0 (executor inherited along the chain)", key=KEY_S5,
                                replay=dict(harness="h_c05", args=["--s5"], key=KEY_S5, observed=x)))
        elif x.get("then_stamp") != BASE + 2:
            # model (c05_inherit): the step's core is handed to the inherited executor as a job of its own — m0's second job
            ck.broken.append(dict(name="correspondence Place (c05_inherit) vs implementation on the shared-state scenarios", key=KEY_S5,
                                  detail=desc + "; the model hands the step to m0 as m0's job 1 (stamp %d)" % (BASE + 2)))
        else:
            ok += 1
    return ok


def main(ck):
    ck.assumptions = [
        "callback bodies are total functions of their argument; values / errors / exceptions are integers (Pipe.v)",
        "an executor's decision to accept or refuse a Submit is a function of the number of Submits it has received (policy); "
        "concurrent Stop-vs-Submit races of Strand / FairThreadPool are C07's / C08's models, whose theorems are re-exported here",
        "every accepting executor eventually runs what was submitted (the harness drains the instrumented executors until quiescent "
        "and fulfils late promises one at a time); hand-off timing is C01's subject",
        "where an invocation runs is modelled for invocations handed to an executor (Then(e,f), Then(f), Run(e,f), AsyncContract(e,f), "
        "co_await On(e)); a ThenInline callback runs wherever its predecessor completes, which the property does not constrain",
        "one consumer per SharedFuture in the generated programs; several consumers of one shared state with an awaiting coroutine among "
        "them (finding S5, fixed by f1ffb7c) are the four hand-written scenarios of `h_c05 --s5`, checked by their own oracle",
        "configuration BC (shipped configuration + coroutines, no fault layer), single thread",
    ]
    ck.cov["trusted_base"] = [
        "Coq 8.16.1 kernel + vm_compute (evaluation of Place.drun / dseq on the explored cases, Example witnesses)",
        "Print Assumptions of every theorem in Properties_C05.v (recorded below)",
        "checks/pipelib.py printers (wire / Gallina) of one program AST; checks/c05.py case printers and stamp arithmetic",
        "harness/h_c05.cpp (instrumented executors, stamps, coroutine sources, final continuations, oracle) + h_c02_lib.hpp (interpreter, "
        "functors) + tools/gen_pipeline_table.py",
        "C07 / C08 developments (Strand.v, Pool.v and their proofs) for the Strand / FairThreadPool halves of c05_call_xor_drop",
    ]
    ck.prove("props/Properties_C05.v", ["model/PlaceObs.vo"])
    exe, b = L.build_harness(HARNESS, "c05")
    rng = random.Random(ck.seed)
    t0 = time.time()
    base, n_enum, plan = base_cases(ck, rng)
    seen, uniq = set(), []
    for c in base:
        w = wire_case(c)
        if w not in seen:
            seen.add(w)
            uniq.append(c)
    base = uniq
    t_gen = time.time() - t0
    # phase 1: no rejection — also tells how many Submits every instrumented executor receives
    t0 = time.time()
    rows1, errs1 = run_impl(exe, base, "c05a")
    cap = None if ck.tier == "thorough" else 3
    rej = []
    for c, row in zip(base, rows1):
        if row is not None and "crash" not in row:
            rej += rejections(c, row, rng, cap if len(L.wire(c["p"])) > 200 else None)
    seen2 = set()
    rej2 = []
    for c in rej:
        w = wire_case(c)
        if w not in seen2:
            seen2.add(w)
            rej2.append(c)
    rows2, errs2 = run_impl(exe, rej2, "c05b")
    t_impl = time.time() - t0
    cases = base + rej2
    rows = rows1 + rows2
    t0 = time.time()
    obs, logs = coq_cases([gallina_case(c) for c in cases], "c05")
    t_coq = time.time() - t0
    ck.notes.append("%d base cases (%d programs enumerated, %d distinct base cases) generated in %.1fs; %d rejection cases; implementation "
                    "%.1fs, Coq %.1fs" % (len(base), n_enum, len(base), t_gen, len(rej2), t_impl, t_coq))
    validated, bad, nontriv, dist = 0, [], 0, {}
    positions = 0
    for c, row, o in zip(cases, rows, obs):
        w = wire_case(c)
        if row is None:
            bad.append((w, "harness produced no result (%s)" % "; ".join(errs1 + errs2)[:300]))
            continue
        if row.get("fail"):
            key = "%s:%s" % (row.get("key") or "crash", "rej" if c["rej"] else "norej")
            ck.hits.append(dict(what="%s [%s]" % (row["fail"], w), key=key, replay=dict(harness="h_c05", case=w, key=key, observed=row)))
            continue
        d = decode(o)
        if d is None:
            bad.append((w, "model evaluation failed: %s" % (logs[0][-600:] if logs else "")))
            continue
        why = compare(c, row, d)
        if why:
            bad.append((w, why))
            continue
        validated += 1
        if c["rej"]:
            positions += 1
        nt, keys = features(c, d)
        nontriv += 1 if nt else 0
        for k in keys:
            dist[k] = dist.get(k, 0) + 1
    ck.cov["evaluations"] = len(cases)
    ck.cov["traces_validated_against_impl"] = validated
    ck.cov["distinct_nontrivial"] = nontriv
    ck.cov["exhaustive"] = False
    ck.cov["rule"] = ("cases = (program, rejection, On-segments, final-continuation flag), all distinct.  Programs: every source of C02's "
                      "catalogue alone, every program over the alphabets in `plan` (steps, full source catalogue?, alphabet level), a sample "
                      "of the two-step programs, seeded random programs of 3-8 steps; each also with its executors re-assigned per step among "
                      "m0 m1 m2 (instrumented) / MakeInline() / MakeInline(StopTag) (thorough: every assignment of m0..m2 for the programs of `plan` with "
                      "<= 2 executor slots); coroutine sources with 1-3 `co_await On(e)` segments; programs whose last step is a Detach / Subscribe; Task pipelines (Schedule(e1,f) / MakeTask / LazyContract / coroutine "
                      "heads, 1-4 steps mixing Then(f) / Then(e,f) / ThenInline(f)) started with ToFuture(e) / Detach(e) / Cancel() / Detach() / "
                      "ToFuture(), e among the instrumented executors, MakeInline() and MakeInline(StopTag).  "
                      "Rejections: for every case and every instrumented executor x that receives n >= 1 Submits, every k in 1..n+1 (quick: at "
                      "most 4 sampled positions for long programs).  Exhaustive over those alphabets only.  non-trivial = some job was Dropped, "
                      "or invocations ran inside two different instrumented executors, or a Then(f) inherited an instrumented executor, or a "
                      "coroutine On-segment / final continuation is involved, or a callback saw StopError")
    ck.cov["plan"] = [list(x) for x in plan]
    ck.cov["base_cases"] = len(base)
    ck.cov["rejection_positions_validated"] = positions
    ck.cov["distribution"] = dist
    ck.cov["cited"] = ["evidence/C07.json (Strand: Submit vs activation refusal, exhaustive DFS)", "evidence/C08.json (FairThreadPool: Submit vs "
                       "Stop / SoftStop / HardStop, exhaustive DFS)"]
    pairs = [(c, r) for c, r in zip(cases, rows) if r and "final" in r]
    ck.cov["samples"] = [dict(case=wire_case(c), final=r["final"], events=r["events"], jobs=r["jobs"], final_executor=r.get("fexec"))
                         for c, r in pairs[:1] + [x for x in pairs if x[0]["rej"]][:2] + [x for x in pairs if x[0]["segs"]][:1] +
                         [x for x in pairs if x[0]["detach"]][:1] + [x for x in pairs if x[0].get("start")][:2]]
    for w, why in bad[:10]:
        ck.broken.append(dict(name="correspondence Place.drun vs implementation", detail="%s\ncase: %s" % (why, w)))
    if bad:
        ck.notes.append("%d cases do not correspond" % len(bad))
    ck.cov["shared_state_scenarios_passed"] = s5_scenarios(ck, exe)
    # ---- Strand and FairThreadPool: the Call-xor-Drop clause of C05 for these two executors is decided by the C07 / C08
    # machinery (Properties_C05.v re-exports their theorems).  Their explorations are run here as well, and the verdicts
    # that are about Call/Drop counts (not FIFO order, mutual exclusion, Wait or SoftStop semantics - those are C07's /
    # C08's own subjects) count for C05, so that ./check C05 alone notices e.g. a Strand::Drop that loses a job.
    from checks import c07, c08
    cxd = re.compile(r"neither Called nor Dropped|finished \d+ times by Call|was Dropped although|Called \d+ times and Dropped|"
                     r"a job never finished|submitted before the stop call and was not Called")
    via = {}
    for mod, pid in ((c07, "C07"), (c08, "C08")):
        sub = runner.Check(pid, ck.tier, ck.seed)
        mod.main(sub)
        mine = [h for h in sub.hits if cxd.search(h["what"])]
        for h in mine[:20]:
            rp = dict(h.get("replay") or {}, via=pid)
            ck.hits.append(dict(what="[%s exploration, Call-xor-Drop] %s" % (pid, h["what"]), key="via%s:%s" % (pid, h.get("key")),
                                replay=rp))
        via[pid] = dict(executions=sub.cov.get("evaluations", 0), call_drop_verdicts=len(mine),
                        other_verdicts_left_to_that_check=len(sub.hits) - len(mine),
                        broken_left_to_that_check=len(sub.broken))
        ck.cov["evaluations"] += sub.cov.get("evaluations", 0)
    ck.cov["strand_and_pool_call_xor_drop"] = via


def replay(ck, path):
    d = json.load(open(path))
    rp = d.get("replay") or {}
    if rp.get("via") in ("C07", "C08"):
        from checks import c07, c08
        return (c07 if rp["via"] == "C07" else c08).replay(ck, path)
    exe, b = L.build_harness(HARNESS, "c05")
    if rp.get("args"):
        r = subprocess.run([exe] + rp["args"], stdout=subprocess.PIPE, text=True, timeout=120)
        print(r.stdout)
        rows = [json.loads(l) for l in r.stdout.split("\n") if l.startswith("{")]
        return 1 if len(rows) != 4 or any(x.get("crash") is not None or x.get("then_ran_inside_m0") is not True for x in rows) else 0
    if not rp.get("case"):
        print("nothing to replay: %s" % json.dumps(d)[:2000])
        return 0
    rows, errs = L.run_programs(exe, [rp["case"]], "c05r")
    print(json.dumps(rows[0]))
    return 1 if rows[0] is None or rows[0].get("fail") else 0
