"""C10 — WhenAny completes once with the right winner for each fail policy.
Proof: coq/props/Properties_C10.v (inductive invariant of the When transition system: any number of inputs, all
       schedules, all result patterns; strategies Any<None> (`_done`), Any<FirstFail> (three-state word + saved
       error + destructor), Any<LastFail> (packed counter 2*n with the parity bit, exact size_t arithmetic)).
Tie:   the real WhenAny (public entry points, FIBER backend) run against n <= 4 racing producers; every explored
       execution is mapped to events of When.v and replayed through the model, which must accept every event with the
       observed values and predict the observed winner; the oracle (property text only) judges every execution."""
from checks import when_common as wc


def main(ck):
    wc.run_check(ck, "C10", "h_c10", 6, "props/Properties_C10.v", quick_exhaustive=("vecUval",), shared_parts=(3, 4, 5), shared_sets=("P10", "S10"))


def replay(ck, path):
    return wc.replay_hit(ck, path, "h_c10", 6)
