"""C13 — Coroutines resume once, after the awaited event, with its outcome, where asked.
Proof: coq/props/Properties_C13.v (inductive invariant of the Await LTS: every schedule, any number of coroutines, awaited
       objects, executors, threads, values).  The readiness rule of the awaiters is read from the source on every run
       (checks/c13_translate.py -> coq/gen/Gen_ready_c13.v); the proofs need it to be "word == kResult".
Tie:   coroutines interpreting generated lists of co_awaits on the real library (FIBER backend; F, and in the thorough tier
       FN = without symmetric transfer and FA = ASan/UBSan) are explored exhaustively (DFS over every scheduling decision) for
       the small configurations and by seeded random walks for the larger ones; every distinct trace is replayed through
       Await.run inside Coq token by token (thread, operation, location, value) and the model's predictions (per resumption:
       which co_await, value, CurrentExecutor, thread; the coroutine's Result; local/frame destructions) must equal what the
       harness observed.
Oracle (from the property text only) runs inside the harness on every execution."""
import json, os, random, re, time
import vlib, runner
from checks import c13_map as M
from checks import c13_translate

HARNESS = os.path.join(vlib.VERIF, "harness", "h_c13.cpp")
PROBE = os.path.join(vlib.VERIF, "harness", "h_c13_sticky_probe.cpp")
GEN = os.path.join(vlib.COQ, "gen", "Gen_ready_c13.v")
HEADER = "From Coq Require Import List. Import ListNotations.\nFrom YV Require Import model.Await model.AwaitObs.\n"


# ---------------------------------------------------------------- scenarios

def dfs_plans(tier, sticky):
    """name -> plan.  1 coroutine x 1 awaited object vs 1 producer for every await form; 2-3 coroutines on one
    SharedFuture; 1 coroutine x 2 objects."""
    p = {}
    for k, kind in (("u", "U"), ("s", "S")):
        for oc in ("v7", "e3", "s"):
            p["co_%s_%s" % (k, oc)] = "O0:%s:%s:d C0:F:m:co0" % (kind, oc)
        p["cc_%s_e" % k] = "O0:%s:e4:d C0:F:m:cc0.cur" % kind
        p["cc_%s_s" % k] = "O0:%s:s:d C0:S:m:cc0.cur" % kind
        p["await_%s" % k] = "O0:%s:v7:d C0:F:m:ai0" % kind
        p["await_dyn_%s" % k] = "O0:%s:v7:d C0:F:m:di0" % kind
        p["awaiton_%s" % k] = "X1:q O0:%s:v7:d C0:F:m:an1_0" % kind
        p["awaiton_dyn_%s" % k] = "X1:q O0:%s:e2:d C0:F:m:dn1_0" % kind
        p["awaiton_stopped_%s" % k] = "X1:s O0:%s:v7:d C0:F:m:an1_0" % kind
        p["awaiton_dyn_stopped_%s" % k] = "X1:s O0:%s:v7:d C0:S:m:dn1_0" % kind
        p["on_then_co_%s" % k] = "X1:q O0:%s:v7:d C0:F:t:on1.co0.cur" % kind
        p["co_thread_%s" % k] = "O0:%s:v7:d C0:F:t:co0" % kind
        p["co_shared_ret_%s" % k] = "O0:%s:v7:d C0:S:m:co0" % kind
        if sticky:
            p["sticky_%s" % k] = "X1:q O0:%s:v7:d C0:F:t:on1.as0" % kind
            p["sticky_dyn_%s" % k] = "X1:q O0:%s:v7:d C0:F:t:on1.ds0" % kind
            p["sticky_inline_%s" % k] = "O0:%s:v7:d C0:F:m:as0" % kind
            p["sticky_then_stopped_%s" % k] = "X1:q X2:s O0:%s:v7:d C0:F:t:on1.as0.on2" % kind
    for when in ("a", "l"):
        p["co_u_%s" % when] = "O0:U:v7:%s C0:F:m:co0" % when
        p["await_s_%s" % when] = "O0:S:v7:%s C0:F:m:ai0" % when
        p["awaiton_u_%s" % when] = "X1:q O0:U:v7:%s C0:F:m:an1_0" % when
    p["on_yield_current"] = "X1:q C0:F:t:on1.y.yy.cur"
    p["on_stopped"] = "X1:s C0:F:m:on1"
    p["on_stopped_pool"] = "X1:z C0:F:m:cur.on1"
    p["yield_inline"] = "C0:F:m:y.yy.cur"
    p["task_lazy_inline"] = "O0:LT0:v5:d C0:F:m:tk0"
    p["task_lazy_queue"] = "X1:q O0:LT1:v5:d C0:F:m:tk0.cur D"
    p["task_lazy_await"] = "X1:q O0:LT1:v5:d C0:F:m:tl0 D"
    p["task_lazy_stopped"] = "X1:s O0:LT1:v5:d C0:F:m:tk0"
    p["task_lazy_stopped_caught"] = "X1:s O0:LT1:v5:d C0:F:m:tc0.cur"
    p["task_coroutine"] = "O0:U:v3:d C0:T:m:co0 C1:F:m:tk1"
    p["task_coroutine_throws"] = "O0:U:e3:d C0:T:m:co0 C1:F:m:tc1.cur"
    p["run_unique"] = "X1:q O0:RU1:v7:d C0:F:m:co0.cur D"
    # AwaitOn(e, ...) of futures whose cores are bound to the SAME executor e (MakeContractOn(e) fulfilled by a foreign fiber,
    # Run(e, f) jobs called / dropped by the harness): the core's executor says where the work was scheduled, not which
    # thread completes it, so the coroutine must still go through e.Submit exactly once and run inside e's Call, and a
    # stopped e must end it with StopError
    for k, kind in (("u", "UO1"), ("s", "SO1")):
        p["awaiton_same_%s" % k] = "X1:q O0:%s:v7:d C0:F:m:an1_0.cur" % kind
        p["awaiton_same_dyn_%s" % k] = "X1:q O0:%s:e2:d C0:F:m:dn1_0.cur" % kind
        p["awaiton_same_stopped_%s" % k] = "X1:s O0:%s:v7:d C0:F:m:an1_0.cur" % kind
        p["awaiton_same_hardstop_%s" % k] = "X1:h O0:%s:v7:d C0:F:m:dn1_0.cur" % kind
        p["awaiton_same_thread_%s" % k] = "X1:q O0:%s:v7:d C0:S:t:an1_0" % kind
        p["awaiton_same_later_%s" % k] = "X1:q O0:%s:v7:l C0:F:m:an1_0" % kind
    p["awaiton_other_exec"] = "X1:q X2:q O0:UO2:v7:d C0:F:m:an1_0.cur"
    p["awaiton_same2_ready_one"] = "X1:q O0:UO1:v1:a O1:SO1:v2:d C0:F:m:an1_0+1.cur"
    p["awaiton_same2_later"] = "X1:q O0:UO1:v1:l O1:UO1:v2:l C0:F:m:an1_0+1.cur"
    p["awaiton_same2_dyn_later"] = "X1:q O0:SO1:v1:l O1:SO1:v2:l C0:F:m:dn1_0+1"
    p["awaiton_same2_stopped"] = "X1:s O0:UO1:v1:a O1:UO1:v2:d C0:F:m:an1_0+1.cur"
    p["awaiton_run_same"] = "X1:q O0:RU1:v7:d C0:F:m:an1_0.cur"
    p["awaiton_run_same_dyn"] = "X1:q O0:RS1:v7:d C0:F:m:dn1_0.cur"
    p["awaiton_run_same2"] = "X1:q O0:RU1:v1:d O1:RS1:e2:d C0:F:m:an1_0+1.cur"
    p["awaiton_run_hardstop"] = "X1:h O0:RU1:v7:d C0:F:m:an1_0.cur"
    p["awaiton_run_hardstop_dyn"] = "X1:h O0:RS1:v7:d C0:S:m:dn1_0.cur"
    p["awaiton_run_hardstop2"] = "X1:h O0:RU1:v1:d O1:RU1:v2:d C0:F:m:an1_0+1.cur"
    p["co_run_hardstop"] = "X1:h O0:RU1:v7:d C0:F:m:cc0.cur"
    p["on_hardstop"] = "X1:h C0:F:m:cur.on1.cur"
    # coroutines with different executors of their own co_await one pending shared state bound to a third executor, then
    # ask CurrentExecutor() and Yield: every one of them inherits the state's executor, the state keeps it (S5)
    p["shared_exec_2"] = "X1:q X2:q X3:q O0:SO3:v7:l C0:F:m:on1.co0.cur.y.cur C1:F:m:on2.co0.cur.yy.cur D"
    p["shared_exec_2_await"] = "X1:q X2:q X3:q O0:SO3:v7:l C0:F:m:on1.ai0.cur.yy.cur C1:S:m:on2.cc0.cur.y.cur D"
    p["shared_exec_2_run"] = "X1:q X2:q O0:RS2:v7:d C0:F:m:on1.co0.cur.y.cur C1:F:m:co0.cur.yy.cur"
    p["shared_exec_2_fiber"] = "X1:q X2:q O0:SO2:v7:d C0:F:m:on1.co0.cur C1:F:m:co0.cur.y D"
    # several coroutines on one SharedFuture
    p["shared_2_main"] = "O0:S:v7:d C0:F:m:co0 C1:F:m:co0"
    p["shared_2_err"] = "O0:S:e3:d C0:F:m:co0 C1:S:m:cc0"
    p["shared_2_mixed"] = "X1:q O0:S:v7:d C0:F:m:ai0 C1:F:m:an1_0"
    p["shared_2_runshared"] = "X1:q O0:RS1:v7:d C0:F:m:co0.cur C1:F:m:co0.cur"
    p["shared_chain2"] = "O0:S:v7:d C0:S:m:co0 C1:F:m:co1"
    # one coroutine, two objects
    p["await2_ready_one"] = "O0:U:v1:a O1:S:v2:d C0:F:m:ai0+1"
    p["awaiton2_ready_one"] = "X1:q O0:U:v1:d O1:S:v2:a C0:F:m:an1_0+1"
    p["awaiton2_stopped"] = "X1:s O0:U:v1:a O1:U:v2:d C0:F:m:an1_0+1"
    if sticky:
        p["sticky2_ready_one"] = "X1:q O0:U:v1:a O1:U:v2:d C0:F:t:on1.as0+1"
    if tier == "thorough":
        p["awaiton_same2"] = "X1:q O0:UO1:v1:d O1:SO1:v2:d C0:F:m:an1_0+1"
        p["awaiton_same2_dyn"] = "X1:q O0:UO1:v1:d O1:UO1:v2:d C0:F:m:dn1_0+1"
        p["shared_3_main"] = "O0:S:v7:d C0:F:m:co0 C1:F:m:co0 C2:F:m:ai0"
        p["await2"] = "O0:U:v1:d O1:S:v2:d C0:F:m:ai0+1"
        p["awaiton2"] = "X1:q O0:U:v1:d O1:S:v2:d C0:F:m:an1_0+1"
        if sticky:
            p["sticky2"] = "X1:q O0:U:v1:d O1:U:v2:d C0:F:t:on1.as0+1"
    return p


def random_plans(rng, n, sticky):
    """Larger mixes: 2-3 coroutines, 2-4 objects (unique first, as the harness' variadic forms want), 1-2 executors."""
    out = {}
    for i in range(n):
        nobj = rng.randint(2, 4)
        nshared = rng.randint(0, nobj)
        kinds = ["U"] * (nobj - nshared) + ["S"] * nshared
        xs = [rng.choice("qqqsph") for _ in range(rng.randint(1, 2))]
        if rng.random() < 0.3:
            xs[0] = "q"
        toks = ["X%d:%s" % (j + 1, x) for j, x in enumerate(xs)]
        qx = [j + 1 for j, x in enumerate(xs)]
        for o, k in enumerate(kinds):
            oc = rng.choice(["v%d" % (o + 1)] * 3 + ["e%d" % (o + 1), "s"])
            if rng.random() < 0.4:                  # the core is bound to one of the executors (MakeContractOn)
                k = k + "O%d" % rng.choice(qx)
            toks.append("O%d:%s:%s:%s" % (o, k, oc, rng.choice("addl")))
        ncor = rng.randint(2, 3)
        uniq = [o for o, k in enumerate(kinds) if k == "U"]
        shared = [o for o, k in enumerate(kinds) if k == "S"]
        rng.shuffle(uniq)
        free_u = list(uniq)                      # a unique future has one owner
        for c in range(ncor):
            steps = []
            mine = []
            while free_u and rng.random() < 0.6:
                mine.append(free_u.pop())
            if c == ncor - 1:
                mine += free_u
                free_u = []
            avail_s = list(shared)
            for _ in range(rng.randint(1, 3)):
                r = rng.random()
                if r < 0.15:
                    steps.append(rng.choice(["cur", "y", "yy"] + ["on%d" % x for x in qx]))
                    continue
                # pick objects: consume uniques once, shared any time
                pick_u = []
                if mine and rng.random() < 0.7:
                    pick_u = [mine.pop() for _ in range(min(len(mine), rng.randint(1, 2)))]
                pick_s = rng.sample(avail_s, min(len(avail_s), rng.randint(0, 2))) if avail_s else []
                objs = sorted(pick_u) + sorted(pick_s)
                if not objs:
                    steps.append("cur")
                    continue
                objs = objs[:3]
                if len(objs) == 3 and not (all(o in uniq for o in objs) or all(o in shared for o in objs) or
                                           (objs[0] in uniq and objs[2] in shared)):
                    objs = objs[:2]
                if len(objs) == 1 and rng.random() < 0.5:
                    steps.append(rng.choice(["co", "cc"]) + str(objs[0]))
                    continue
                forms = ["ai", "an"] + (["as"] if sticky else [])
                homog = all(o in uniq for o in objs) or all(o in shared for o in objs)
                if homog and rng.random() < 0.3:
                    forms = ["di", "dn"] + (["ds"] if sticky else [])
                f = rng.choice(forms)
                body = "+".join(str(o) for o in objs)
                steps.append("%s%d_%s" % (f, rng.choice(qx), body) if f in ("an", "dn") else f + body)
            for o in mine:                         # whatever unique future is left is awaited at the end
                steps.append("co%d" % o)
            toks.append("C%d:%s:%s:%s" % (c, rng.choice("FFS"), rng.choice("mt"), ".".join(steps)))
        if rng.random() < 0.5:
            toks.append("D")
        out["mix%02d" % i] = " ".join(toks)
    return out


# ---------------------------------------------------------------- running

def fail_key(text):
    """stable key of an oracle failure: the kind of failure without the numbers"""
    t = re.sub(r"\d+", "N", text)
    t = re.sub(r"\(.*?\)", "", t)
    return re.sub(r"\s+", "-", t.strip())[:60]


class Runner:
    def __init__(self, ck, cfg, sticky):
        self.ck, self.cfg, self.sticky = ck, cfg, sticky
        extra = ["-DC13_HAVE_STICKY"] if sticky else []
        self.exe, self.b = vlib.compile_harness(cfg, [HARNESS], "c13", extra=extra)
        self.n = 0

    def run(self, plans, mode, args=(), timeout=1500):
        self.n += 1
        d = os.path.join(self.b["build"], "c13_plans")
        os.makedirs(d, exist_ok=True)
        pf = os.path.join(d, "plans_%d_%d.txt" % (os.getpid(), self.n))
        with open(pf, "w") as f:
            for k, v in plans.items():
                f.write("%s=%s\n" % (k, v))
        for attempt in range(3):
            try:
                os.utime(os.path.dirname(self.b["build"]), None)      # keep the shared build cache from pruning this tree
                with open(pf, "w") as f:
                    for k, v in plans.items():
                        f.write("%s=%s\n" % (k, v))
                rows, out, err, rc = runner.run_harness(self.exe, ["--mode", mode, "--plans", pf] + list(args), timeout=timeout)
                break
            except FileNotFoundError:
                # another check's build pruned the cache directory under us: build again
                extra = ["-DC13_HAVE_STICKY"] if self.sticky else []
                self.exe, self.b = vlib.compile_harness(self.cfg, [HARNESS], "c13", extra=extra)
                d = os.path.join(self.b["build"], "c13_plans")
                os.makedirs(d, exist_ok=True)
                pf = os.path.join(d, "plans_%d_%d.txt" % (os.getpid(), self.n))
        try:
            os.remove(pf)
        except FileNotFoundError:
            pass
        return rows, out, err, rc


def collect(ck, R, plans, mode, args, stats, check_model=True, yield_at=None):
    """Run, turn oracle failures into hits, replay the rest through the model.  yield_at: where the explorer offers the
    fiber switch (None/"before": in front of each wrapped operation, "after": behind it, "both")."""
    if yield_at:
        args = list(args) + ["--yield-at", yield_at]
    heads, traces = [], []
    todo = dict(plans)
    t_stage = time.time()
    while todo:
        rows, out, err, rc = R.run(todo, mode, args)
        hs = [r for r in rows if "mode" in r]
        heads += hs
        done = set(h["scenario"] for h in hs)
        traces += [r for r in rows if "trace" in r and r["scenario"] in done]
        if rc == 0 and len(hs) == len(todo):
            break
        # the process died inside a scenario: report it, go on with the ones after it
        m = re.search(r"CRASH signal=(\d+) choices=([\d,]*)", out + err)
        crashed = next((k for k in todo if k not in done), None)
        san = re.search(r"(ERROR: AddressSanitizer[^\n]*|runtime error:[^\n]*|SUMMARY: [^\n]*)", err)
        what = "harness %s (%s) ended with rc=%d in scenario %s [%s]: %s" % (
            R.cfg, mode, rc, crashed, todo.get(crashed), san.group(1) if san else ("signal " + m.group(1) if m else (err or out)[-300:]))
        stats["crashes"].append(dict(what=what, key="crash:" + (fail_key(san.group(1)) if san else "signal"),
                            replay=dict(harness="h_c13", config=R.cfg, sticky=R.sticky, scenario=crashed,
                                        plan=todo.get(crashed), mode=mode, args=list(args), yield_at=yield_at,
                                        choices=m.group(2).rstrip(",") if m else None)))
        if crashed is None:
            break
        keys = list(todo)
        todo = {k: todo[k] for k in keys[keys.index(crashed) + 1:]}
    stats["executions"] += sum(h["executions"] for h in heads)
    stats["scenarios"] += len(heads)
    stats["cut"] += sum(h["cut"] for h in heads)
    if mode == "dfs":
        stats["dfs_scenarios"] += len(heads)
        stats["dfs_exhaustive"] += sum(1 for h in heads if h["exhaustive"])
    good = []
    for t in traces:
        if t["fail"]:
            ck.hits.append(dict(what="%s [%s] %s" % (t["scenario"], plans[t["scenario"]], t["fail"]), key=fail_key(t["fail"]),
                                replay=dict(harness="h_c13", config=R.cfg, sticky=R.sticky, scenario=t["scenario"],
                                            plan=plans[t["scenario"]], choices=t["choices"], trace=t["trace"],
                                            yield_at=yield_at)))
        else:
            good.append(t)
    stats["distinct"] += len(traces)
    stats.setdefault("stages", []).append(dict(config=R.cfg, mode=mode, yield_at=yield_at or "before", scenarios=len(heads), executions=sum(h["executions"] for h in heads),
                                               distinct=len(traces), explore_s=round(time.time() - t_stage, 1)))
    if not check_model:
        return traces
    t_stage = time.time()
    terms, metas = [], []
    seen = stats.setdefault("seen", set())        # (config, plan, trace) already replayed and found equal in an earlier pass
    for t in good:
        key = (R.cfg, plans[t["scenario"]], t["trace"])
        if key in seen:
            stats["validated_again"] = stats.get("validated_again", 0) + 1
            continue
        plan = M.Plan(plans[t["scenario"]])
        try:
            evs, obs = M.to_events(t["trace"])
        except ValueError as e:
            ck.gen_obligation("correspondence Await (trace vocabulary)", False, "%s in %s" % (e, t["trace"]))
            continue
        terms.append("obs_nat %s [%s]" % (plan.coq_config(), "; ".join(evs)))
        metas.append((t, plan, obs, evs))
    res, logs = vlib.coq_eval_cases(HEADER, terms, "c13_%s" % R.cfg.lower()) if terms else ([], [])
    stats["stages"][-1]["replay_s"] = round(time.time() - t_stage, 1)
    for (t, plan, obs, evs), r in zip(metas, res):
        if r is None:
            stats["bad"].append((R.cfg, t, plan, "model evaluation failed: " + (logs[0][-400:] if logs else "")))
            continue
        model = M.parse_obs(r)
        bad = M.compare(plan, obs, model)
        if bad:
            why = "; ".join(bad)
            if not model["accepted"]:
                why += " (%s)" % evs[model["at"]]
            stats["bad"].append((R.cfg, t, plan, why))
        else:
            stats["validated"] += 1
            seen.add((R.cfg, plans[t["scenario"]], t["trace"]))
            if nontrivial(t["trace"]):
                stats["nontrivial"].add(plans[t["scenario"]] + "|" + t["trace"])
            s5 = s5_observation(plan, model)
            if s5:
                stats["s5"].append((t, s5))
    return traces


def nontrivial(trace):
    """Contended: on some callback word or awaiter counter the operations of two threads interleave (a thread operates on
    it, another thread does, then the first one again), i.e. a registration / readiness test / suspension races with a
    completion, or two completions race through one coroutine's counter."""
    runs = {}
    for x in trace.split(";"):
        who, _, rest = x.partition(":")
        m = re.match(r"[a-z_]+@([wk]\d+)=", rest)
        if rest.startswith("!end"):
            break
        if not m:
            continue
        l = runs.setdefault(m.group(1), [])
        if not l or l[-1] != who:
            l.append(who)
    return any(len(l) != len(set(l)) for l in runs.values())


def s5_observation(plan, model):
    """two coroutines that co_awaited the same shared object inline and ended up with different executors"""
    seen = {}
    for c, co in enumerate(model["cos"]):
        for r in co["res"]:
            st = plan.cs[c]["prog"][r["k"]] if r["k"] < len(plan.cs[c]["prog"]) else None
            if st and st["op"] in ("co", "cc") and plan.os[st["os"][0]]["shared"] and r["how"][0] == 1:
                seen.setdefault(st["os"][0], []).append((c, r["own"], r["exec"]))
    for o, l in seen.items():
        if len(l) >= 2 and len(set(e for (_, _, e) in l)) > 1 and len(set(w for (_, w, _) in l)) == 1:
            return dict(object=o, coroutines=[dict(c=c, executor_before=w, executor_after=e) for (c, w, e) in l])
    return None


def sticky_compiles(ck):
    b = vlib.build("F")
    r = vlib.sh(["g++"] + b["cxx"] + ["-fsyntax-only", PROBE])
    if r.returncode != 0:
        ck.broken.append(dict(name="coro/await_sticky.hpp does not compile: AwaitSticky(fs...) unusable (the sticky scenarios are skipped)",
                              key="await-sticky-does-not-compile", detail=r.stdout[-1500:]))
        return False
    return True


def main(ck):
    ck.assumptions = [
        "FIBER backend: sequentially consistent, switches only at the wrapped yaclib_std operations (memory-order effects are C04's subject)",
        "executors give every submitted job exactly one of Call / Drop (C05, C07, C08): in the model that is the shape of the events ESubmit / ECall / EDrop",
        "reference counting of the cores (who destroys a frame, and that nobody uses it afterwards) is C03/C06's subject: the model takes the owner's release as an event; ASan watches it in the thorough tier",
        "the compiler's coroutine transformation (when locals and parameter copies are destroyed, symmetric transfer) is exercised, not modelled",
    ]
    ck.cov["trusted_base"] = [
        "Coq 8.16.1 kernel + vm_compute (used for replaying traces and in Example witnesses)",
        "Print Assumptions of every theorem in Properties_C13.v: Closed under the global context (no axioms)",
        "checks/c13_translate.py (reads BaseCore::Empty and every await_ready from the source into gen/Gen_ready_c13.v)",
        "checks/c13_map.py trace-to-event mapping (one token -> one event; CAS success = the word changed) and harness/h_c13.cpp oracle",
        "YACLIB_VERIF hooks in the fault layer; FIBER scheduler and fiber atomics (C17-C19 are about those)",
    ]
    t0 = time.time()
    rule = c13_translate.generate(vlib.REPO, GEN)
    ck.cov["readiness_rule"] = dict(recognised=rule["recognised"], is_result=rule["is_result"], empty=rule["empty_body"])
    ck.cov["impl_swaps_executor"] = dict(value=rule["impl_moves"], impl=rule["impl_body"])
    ck.prove("props/Properties_C13.v", ["model/AwaitObs.vo"])
    sticky = sticky_compiles(ck)
    stats = dict(executions=0, scenarios=0, cut=0, dfs_scenarios=0, dfs_exhaustive=0, distinct=0, validated=0,
                 nontrivial=set(), bad=[], s5=[], crashes=[])
    rng = random.Random(ck.seed * 7919 + 13)
    thorough = ck.tier == "thorough"
    # ---- config F: exhaustive, then random mixes
    R = Runner(ck, "F", sticky)
    dfs = dfs_plans(ck.tier, sticky)
    big = {k: v for k, v in dfs.items() if k in ("await2", "await2_dyn", "awaiton2", "sticky2", "shared_3_main", "shared_2_threads",
                                                 "awaiton_same2", "awaiton_same2_dyn")}
    small = {k: v for k, v in dfs.items() if k not in big}
    all_traces = collect(ck, R, small, "dfs", [], stats)
    # the same exhaustive sets with the fiber switch offered AFTER each wrapped operation: a fiber is then stopped between
    # an operation and the plain code that follows it (e.g. between a SubEqual / SetCallback and a plain store after it)
    all_traces += collect(ck, R, small, "dfs", [], stats, yield_at="after")
    for k, v in big.items():                      # one at a time: each has 10^4..10^5 distinct traces
        all_traces += collect(ck, R, {k: v}, "dfs", ["--max", "1500000"], stats)
        all_traces += collect(ck, R, {k: v}, "dfs", ["--max", "1500000"], stats, yield_at="after")
    mixes = random_plans(rng, 60 if thorough else 24, sticky)
    # too large to enumerate: sampled
    mixes["shared_2_threads"] = "O0:S:v7:d C0:F:t:co0 C1:F:m:co0"
    mixes["shared_chain3"] = "O0:S:v7:d C0:S:m:co0 C1:F:m:co1 C2:F:t:co1"
    mixes["await2_dyn"] = "O0:U:v1:d O1:U:e2:d C0:F:m:di0+1"
    mixes["awaiton2_shared"] = "X1:q O0:S:v1:d O1:S:v2:d C0:F:m:an1_0+1"
    if sticky:
        mixes["sticky2_mixed"] = "X1:q O0:U:v1:d O1:S:v2:d C0:F:t:on1.as0+1"
    all_traces += collect(ck, R, mixes, "random", ["--max", "400" if thorough else "120", "--seed", str(ck.seed)], stats,
                          yield_at="both")
    if thorough:
        # without symmetric transfer: the same small exhaustive sets and a third of the mixes, with correspondence
        RN = Runner(ck, "FN", sticky)
        collect(ck, RN, small, "dfs", [], stats)
        collect(ck, RN, small, "dfs", [], stats, yield_at="after")
        sub = dict(list(mixes.items())[:20])
        collect(ck, RN, sub, "random", ["--max", "300", "--seed", str(ck.seed + 1)], stats, yield_at="both")
        # ASan/UBSan: frame lifetime (oracle + sanitizer only; the traces are the same as under F)
        RA = Runner(ck, "FA", sticky)
        collect(ck, RA, small, "random", ["--max", "60", "--seed", str(ck.seed + 2)], stats, check_model=False, yield_at="both")
        collect(ck, RA, sub, "random", ["--max", "150", "--seed", str(ck.seed + 3)], stats, check_model=False, yield_at="both")
    ck.hits += stats["crashes"]            # oracle verdicts first, dead processes after them
    # ---- evidence
    ck.cov["evaluations"] = stats["executions"]
    ck.cov["scenarios"] = stats["scenarios"]
    ck.cov["exhaustive"] = stats["dfs_scenarios"] > 0 and stats["dfs_exhaustive"] == stats["dfs_scenarios"]
    ck.cov["exhaustive_scenarios"] = "%d of %d DFS scenarios explored completely" % (stats["dfs_exhaustive"], stats["dfs_scenarios"])
    ck.cov["distinct_traces"] = stats["distinct"]
    ck.cov["traces_validated_against_impl"] = stats["validated"]
    ck.cov["traces_seen_again_in_a_later_pass"] = stats.get("validated_again", 0)
    ck.cov["distinct_nontrivial"] = len(stats["nontrivial"])
    ck.cov["await_sticky_compiles"] = sticky
    ck.cov["rule"] = (
        "exhaustive DFS over every scheduling decision of the FIBER backend (choice of next fiber; fiber switch offered before "
        "each wrapped atomic/mutex/condvar operation, and in a second complete pass after each one instead, so that a fiber is "
        "also stopped between an operation and the plain code behind it; random walks offer it at both places) for 1 coroutine x 1 awaited object x 1 producer in every await form (co_await "
        "future/shared future/task, Await/AwaitOn/AwaitSticky variadic and iterator forms, On, Yield, CurrentExecutor; value, "
        "exception, dropped promise; already ready / during / later; executor alive or stopped), 2-3 coroutines on one "
        "SharedFuture, 1 coroutine x 2 objects, AwaitOn(e, ...) of futures bound to the same executor e (contracts made on e and "
        "fulfilled by another fiber, Run(e, f) jobs called or dropped by a hard stop); seeded random walks (VERIF_SEED) over generated mixes of 2-3 coroutines x 2-4 "
        "objects x 1-2 executors (queue, stopped, FairThreadPool); traces deduplicated by their sequence of operations on the "
        "callback words / awaiter counters plus harness markers; non-trivial = on some callback word or awaiter counter the "
        "operations of two threads interleave (thread A, then B, then A again): a registration, readiness test or suspension "
        "races with a completion, or two completions race through one counter")
    samp = [t for t in all_traces if not t["fail"]]
    pick = samp[:2] + [t for t in samp if t["scenario"].startswith("shared_2")][:2] + [t for t in samp if t["scenario"].startswith("mix")][:1]
    ck.cov["samples"] = [dict(scenario=t["scenario"], plan=(dfs.get(t["scenario"]) or mixes.get(t["scenario"])),
                              trace=t["trace"], choices=t["choices"], executions=t["count"]) for t in pick]
    if stats["s5"]:
        t, s5 = stats["s5"][0]
        ck.notes.append("S5 observed (not a C13 violation by the property text; see DESIGN 6): %d validated traces in which two "
                        "coroutines co_awaiting one shared future inline end with different CurrentExecutor, e.g. scenario %s "
                        "choices %s: %s" % (len(stats["s5"]), t["scenario"], t["choices"], json.dumps(s5)))
    else:
        ck.notes.append("S5 not observed: in no validated trace do two coroutines that co_await one shared future inline end "
                        "with different CurrentExecutor (PromiseType::Impl in this tree: %s)" % rule["impl_body"])
    for cfg, t, plan, why in stats["bad"][:10]:
        ck.broken.append(dict(name="correspondence Await.run vs implementation (%s) on %s" % (cfg, t["scenario"]),
                              detail="%s\nplan: %s\ntrace: %s\nchoices: %s" % (why, plan.text, t["trace"], t["choices"])))
    if stats["bad"]:
        ck.cov["correspondence_mismatches"] = len(stats["bad"])
    if not all_traces:
        ck.broken.append(dict(name="correspondence Await.run vs implementation", detail="harness produced no traces"))
    ck.cov["stage_seconds"] = round(time.time() - t0, 1)
    ck.cov["stages"] = stats.get("stages", [])


def replay(ck, path):
    d = json.load(open(path))
    rp = d.get("replay") or {}
    if not rp.get("plan"):
        print("nothing to replay: %s" % json.dumps(d)[:2000])
        return 0
    extra = ["-DC13_HAVE_STICKY"] if rp.get("sticky") else []
    exe, b = vlib.compile_harness(rp.get("config", "F"), [HARNESS], "c13", extra=extra)
    pf = os.path.join(b["build"], "c13_replay_%d.txt" % os.getpid())
    open(pf, "w").write("%s=%s\n" % (rp["scenario"], rp["plan"]))
    if rp.get("choices") is not None:
        args = ["--mode", "replay", "--plans", pf, "--choices", rp["choices"]]
        if rp.get("yield_at"):
            args += ["--yield-at", rp["yield_at"]]
    else:
        args = ["--mode", rp.get("mode", "random"), "--plans", pf] + rp.get("args", [])      # args carry --yield-at
    rows, out, err, rc = runner.run_harness(exe, args)
    os.remove(pf)
    print(out)
    if err:
        print(err[-2000:])
    bad = any(r.get("fail") for r in rows if "trace" in r)
    return 1 if bad or rc != 0 else 0
