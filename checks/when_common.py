"""Shared by checks/c09.py (WhenAll / Join) and checks/c10.py (WhenAny): scenario naming, the purely syntactic
mapping from implementation traces (harness/when_h.hpp) to events of coq/model/When.v, replay inside Coq and
comparison of the model's prediction with what the implementation showed."""
import concurrent.futures, json, os, re, subprocess, time
import vlib, runner

HEADER = ("From Coq Require Import List NArith. Import ListNotations.\n"
          "From YV Require Import model.When model.WhenObs.\n")


def parse_name(name):
    """allff/vecUval/2/ve/q01 -> dict(kind, form, inputs, typ, n, pat, arr)"""
    kind, fi, n, pat, arr = name.split("/")
    m = re.match(r"(vec|var)([USM])(val|void|het)$", fi)
    return dict(kind=kind, form=m.group(1), inputs=m.group(2), typ=m.group(3), n=int(n), pat=pat, arr=arr, cfg="/".join((kind, fi, n)))


def strategy(sc):
    k, t = sc["kind"], sc["typ"]
    if k == "allff":
        return "STupFF" if t == "het" else "SJoinFF" if t == "void" else "SAllFF"
    if k == "allnone":
        return "STupNone" if t == "het" else "SAllNone"
    return {"join": "SJoinNone", "joinff": "SJoinFF", "anylf": "SAnyLF", "anyff": "SAnyFF", "anynone": "SAnyNone"}[k]


OWNED = {"SAllNone", "SAllFF"}


def is_shared(sc, i):
    return sc["inputs"] == "S" or (sc["inputs"] == "M" and i % 2 == 1)


def has_model(sc):
    # WhenAny over a one-element range of Future returns that future itself: no combinator exists
    return not (sc["kind"].startswith("any") and sc["form"] == "vec" and sc["n"] == 1 and sc["inputs"] == "U") and sc["n"] > 0


def res_of_code(c):
    if 1000 <= c < 2000:
        return "RVal %d" % (c - 1000)
    if 2000 <= c < 3000:
        return "RErr %d" % (c - 2000)
    if 3000 <= c < 4000:
        return "RExc %d" % (c - 3000)
    raise ValueError("bad result code %d" % c)


def enc_of_code(c):
    """harness code -> WhenObs.enc"""
    if 1000 <= c < 2000:
        return 1 + 3 * (c - 1000)
    if 2000 <= c < 3000:
        return 2 + 3 * (c - 2000)
    if 3000 <= c < 4000:
        return 3 + 3 * (c - 3000)
    return 0


class MapError(ValueError):
    pass


def to_events(sc, trace):
    """Implementation trace -> (list of Gallina events, observed (count, codes)).  Syntactic; the value returned by
    an exchange / fetch_sub and the success of a CAS are reconstructed from the previous value of that word (the
    FIBER backend is sequentially consistent)."""
    sg = strategy(sc)
    owned = sg in OWNED
    toks = [t for t in trace.split(";") if t]
    # which fetch_sub on a shared input's reference counter belong to its own promise (SetResultImpl<Shared>:
    # one before the callback list is run, two after): on the producer's fiber the first and the last two
    own = set()
    for pos, t in enumerate(toks):
        m = re.match(r"(\w+):exchange@w(\d+)=R$", t)
        if not m or not is_shared(sc, int(m.group(2))):
            continue
        f, i = m.group(1), int(m.group(2))
        try:
            end = toks.index("%s:!r%d" % (f, i), pos)
        except ValueError:
            raise MapError("input %d: Set did not return" % i)
        idx = [p for p in range(pos, end) if toks[p].startswith("%s:fetch_sub@rc%d=" % (f, i))]
        if len(idx) < 3:
            raise MapError("shared input %d: its promise dropped %d references, 3 expected" % (i, len(idx)))
        own.update([idx[0], idx[-2], idx[-1]])
    cur = {}
    curin = {}
    breg = 0
    dtor = None  # (fiber, input)
    evs = []
    observed = None
    for pos, t in enumerate(toks):
        who, _, rest = t.partition(":")
        if rest.startswith("!"):
            txt = rest[1:]
            if txt.startswith("c"):
                m = re.match(r"c(\d+) (\d+)$", txt)
                evs.append("EComplete %s (%s)" % (m.group(1), res_of_code(int(m.group(2)))))
            elif txt.startswith("out"):
                nums = [int(x) for x in txt.split()[1:]]
                observed = (nums[0], nums[1:])
            elif re.match(r"r\d+$", txt):
                pass
            elif txt in ("invalid", "valid"):
                observed = (txt, [])
            else:
                raise MapError("unknown harness event " + t)
            continue
        m = re.match(r"([a-z_]+)@([a-z]+)(\d*)=(\w+)$", rest)
        if not m:
            raise MapError("unknown trace token " + t)
        op, loc, idx, val = m.group(1), m.group(2), m.group(3), m.group(4)
        if loc == "w":
            i = int(idx)
            old = cur.get(("w", i), "E")
            if op == "exchange":
                if val != "R":
                    raise MapError("exchange on a callback word to " + val)
                evs.append("EXchg %d %s" % (i, {"E": "WE", "C": "WC", "R": "WR"}[old]))
                cur[("w", i)] = "R"
                if old == "C":
                    curin[who] = i
            elif op in ("compare_exchange_strong", "compare_exchange_weak"):
                if who != "B" or i != breg:
                    raise MapError("unexpected CAS on a callback word: " + t)
                ok = old == "E" and val == "C"
                if not ok and val != "R":
                    raise MapError("failed CAS left " + val)
                evs.append("EReg %d %s" % (i, "true" if ok else "false"))
                cur[("w", i)] = val
                breg += 1
                if not ok:
                    curin[who] = i
            elif op == "load":
                if who == "B" and i == breg:
                    if val == "R":
                        evs.append("EReg %d false" % i)
                        breg += 1
                        curin[who] = i
                    elif val != "E":
                        raise MapError("pre-check load saw " + val)
                elif val == "R":
                    # ~ResultCore re-reads the word: the input state is being destroyed
                    if is_shared(sc, i):
                        pass  # last reference (maybe the promise's) dropped: not the combinator's release
                    elif owned:
                        if dtor is None or dtor[0] != who:
                            raise MapError("owned input destroyed outside the destructor: " + t)
                        evs.append("EDFree %d %d" % (dtor[1], i))
                    else:
                        evs.append("EFree %d" % i)
                else:
                    raise MapError("unexpected load of a callback word: " + t)
            else:
                raise MapError("unexpected operation on a callback word: " + t)
        elif loc == "rc":
            i = int(idx)
            if op == "load":
                continue
            if op != "fetch_sub":
                raise MapError("unexpected operation on a reference counter: " + t)
            if pos in own:
                continue
            if owned:
                if dtor is None or dtor[0] != who:
                    raise MapError("owned input released outside the destructor: " + t)
                evs.append("EDFree %d %d" % (dtor[1], i))
            else:
                evs.append("EFree %d" % i)
        elif loc == "d":
            old = cur.get("d", "0")
            if who not in curin:
                raise MapError("strategy operation outside a consume step: " + t)
            if op == "load":
                evs.append("ELdDone %d %s" % (curin[who], "true" if val == "1" else "false"))
            elif op == "exchange":
                evs.append("EXchgDone %d %s" % (curin[who], "true" if old == "1" else "false"))
                cur["d"] = val
            else:
                raise MapError("unexpected operation on _done: " + t)
        elif loc == "s":
            if "s" not in cur:
                cur["s"] = str(2 * sc["n"]) if sg == "SAnyLF" else "0"
            old = cur["s"]
            if who not in curin:
                raise MapError("strategy operation outside a consume step: " + t)
            i = curin[who]
            if op == "load":
                evs.append("ELdState %d %s%%N" % (i, val))
            elif op == "exchange":
                evs.append("EXchgState %d %s%%N" % (i, old))
                cur["s"] = val
            elif op == "compare_exchange_strong":
                ok = old == "0" and val == "1"
                evs.append("ECasState %d %s" % (i, "true" if ok else "false"))
                cur["s"] = val
            elif op == "fetch_sub":
                evs.append("ESubState %d %s%%N" % (i, old))
                cur["s"] = val
            else:
                raise MapError("unexpected operation on _state: " + t)
        elif loc == "count":
            if op != "fetch_sub":
                raise MapError("unexpected operation on the combinator counter: " + t)
            if who not in curin:
                raise MapError("DecRef outside a consume step: " + t)
            evs.append("EDec %d %d" % (curin[who], int(val) + 1))
            if val == "0":
                dtor = (who, curin[who])
        elif loc == "o":
            if op != "exchange":
                raise MapError("unexpected operation on the output word: " + t)
            if dtor is not None and dtor[0] == who:
                evs.append("EPublish %d" % dtor[1])
            else:
                if who not in curin:
                    raise MapError("output set outside a consume step: " + t)
                evs.append("ESetOut %d" % curin[who])
        else:
            raise MapError("unknown location in " + t)
    return evs, observed


def decode_obs(r):
    """WhenObs.obs_state -> dict"""
    if r[0] == 0:
        return dict(rejected=r[1])
    d = dict(rejected=None, terminal=r[1], crashed=r[2], deleted=r[3], count=r[4])
    k = r[5]
    p = 6
    outs = []
    for _ in range(k):
        by, dt, kind, ln = r[p:p + 4]
        outs.append(dict(by=by, dtor=dt, kind=kind, codes=r[p + 4:p + 4 + ln]))
        p += 4 + ln
    d["outs"] = outs
    n = r[p]
    p += 1
    d["inputs"] = [(r[p + 2 * i], r[p + 2 * i + 1]) for i in range(n)]
    p += 2 * n
    d["win"], d["dt"] = r[p] - 1, r[p + 1] - 1
    return d


def expected_out(sc, observed):
    """What the model must predict for the observed output codes: (kind, codes in WhenObs encoding)."""
    cnt, codes = observed
    if codes == [1]:
        return 1, []
    if len(codes) == 1 and (codes[0] >= 2000 or sc["kind"].startswith("any")):
        return 2, [enc_of_code(codes[0])]
    return 0, [enc_of_code(c) for c in codes]


def compare(sc, observed, model):
    """'' if the model's prediction equals the observation, else a description."""
    if model["rejected"] is not None:
        return "model rejects event #%d" % model["rejected"]
    if observed is None or observed[0] != 1:
        return "implementation set the output %s times" % (observed[0] if observed else "?")
    if len(model["outs"]) != 1:
        return "model predicts %d output sets" % len(model["outs"])
    kind, codes = expected_out(sc, observed)
    o = model["outs"][0]
    if o["kind"] != kind or (kind != 1 and o["codes"] != codes):
        return "model predicts output kind %d codes %s; implementation showed kind %d codes %s" % (o["kind"], o["codes"], kind, codes)
    if not model["terminal"] or model["crashed"] or model["deleted"] != 1 or model["count"] != 0:
        return "model not terminal at the end of the implementation run: terminal=%s crashed=%s deleted=%s count=%s" % (
            model["terminal"], model["crashed"], model["deleted"], model["count"])
    if any(x != (1, 1) for x in model["inputs"]):
        return "model: inputs (released, consumed) = %s" % (model["inputs"],)
    return ""


def coq_eval_many(groups, name, batch=60, timeout=900):
    """groups: list of (strategy, n, [event list, ...]).  Returns, aligned with the flattened input, the decoded
    observation of each trace (None when the evaluation failed)."""
    terms, sizes = [], []
    for sg, n, trs in groups:
        for k in range(0, len(trs), batch):
            chunk = trs[k:k + batch]
            terms.append("obs_many %s %d [%s]" % (sg, n, "; ".join("[" + "; ".join(t) + "]" for t in chunk)))
            sizes.append(len(chunk))
    res, logs = vlib.coq_eval_cases(HEADER, terms, name, shard=40, timeout=timeout) if terms else ([], [])
    out = []
    for r, k in zip(res, sizes):
        if r is None:
            out.extend([None] * k)
            continue
        p, got = 0, []
        while p < len(r):
            ln = r[p]
            got.append(decode_obs(r[p + 1:p + 1 + ln]))
            p += 1 + ln
        out.extend(got if len(got) == k else [None] * k)
    return out, logs
