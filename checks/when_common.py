"""Shared by checks/c09.py (WhenAll / Join) and checks/c10.py (WhenAny): scenario naming, the purely syntactic
mapping from implementation traces (harness/when_h.hpp) to events of coq/model/When.v, replay of the model (inside
Coq with vm_compute, and through the OCaml extraction of the same Gallina function for the bulk), and comparison
of the model's prediction with what the implementation showed."""
import concurrent.futures, hashlib, json, os, re, shutil, subprocess, time
import vlib, runner

HEADER = ("From Coq Require Import List NArith. Import ListNotations.\n"
          "From YV Require Import model.When model.WhenObs.\n")


def parse_name(name):
    """allff/vecUval/2/q01/ve -> dict(kind, form, inputs, typ, n, pat, arr)"""
    kind, fi, n, arr, pat = name.split("/")
    m = re.match(r"(vec|var)([USM])(val|void|het)$", fi)
    return dict(kind=kind, form=m.group(1), inputs=m.group(2), typ=m.group(3), n=int(n), pat=pat, arr=arr,
                cfg="/".join((kind, fi, n)), name=name)


def strategy(sc):
    k, t = sc["kind"], sc["typ"]
    if k == "allff":
        return "STupFF" if t == "het" else "SJoinFF" if t == "void" else "SAllFF"
    if k == "allnone":
        return "STupNone" if t == "het" else "SAllNone"
    return {"join": "SJoinNone", "joinff": "SJoinFF", "anylf": "SAnyLF", "anyff": "SAnyFF", "anynone": "SAnyNone"}[k]


OWNED = {"SAllNone", "SAllFF"}


def is_shared(sc, i):
    return sc["inputs"] == "S" or (sc["inputs"] == "M" and i % 2 == 1)


def has_model(sc):
    # WhenAny over a one-element range of Future returns that future itself: no combinator exists
    return not (sc["kind"].startswith("any") and sc["form"] == "vec" and sc["n"] == 1 and sc["inputs"] == "U") and sc["n"] > 0


def res_of_code(c):
    if 1000 <= c < 2000:
        return (0, c - 1000)
    if 2000 <= c < 3000:
        return (1, c - 2000)
    if 3000 <= c < 4000:
        return (2, c - 3000)
    raise ValueError("bad result code %d" % c)


def enc_of_code(c):
    """harness code -> WhenObs.enc"""
    if 1000 <= c < 2000:
        return 1 + 3 * (c - 1000)
    if 2000 <= c < 3000:
        return 2 + 3 * (c - 2000)
    if 3000 <= c < 4000:
        return 3 + 3 * (c - 3000)
    return 0


class MapError(ValueError):
    pass


WORDS = {"E": 0, "C": 1, "R": 2}
TOKRE = re.compile(r"([a-z_]+)@([a-z]+)(\d*)=(\w+)$")


def to_events(sc, trace):
    """Implementation trace -> (tuple of event tuples, observed (count, codes)).  Syntactic; the value returned by an
    exchange / fetch_sub and the success of a CAS are reconstructed from the previous value of that word (the FIBER
    backend is sequentially consistent).  Event tuples: see render_coq."""
    sg = strategy(sc)
    owned = sg in OWNED
    toks = [t for t in trace.split(";") if t]
    # which fetch_sub on a shared input's reference counter belong to its own promise (SetResultImpl<Shared>: one
    # before the callback list is run, two after): inside the producer's Set call, the first and the last two
    own = set()
    if sc["inputs"] != "U":
        for pos, t in enumerate(toks):
            m = re.match(r"(\w+):exchange@w(\d+)=R$", t)
            if not m or not is_shared(sc, int(m.group(2))):
                continue
            f, i = m.group(1), int(m.group(2))
            try:
                end = toks.index("%s:!r%d" % (f, i), pos)
            except ValueError:
                raise MapError("input %d: Set did not return" % i)
            pre = "%s:fetch_sub@rc%d=" % (f, i)
            idx = [p for p in range(pos, end) if toks[p].startswith(pre)]
            if len(idx) < 3:
                raise MapError("shared input %d: its promise dropped %d references, 3 expected" % (i, len(idx)))
            own.update([idx[0], idx[-2], idx[-1]])
    cur = {}
    curin = {}
    breg = 0
    dtor = None  # (fiber, input)
    evs = []
    observed = None
    for pos, t in enumerate(toks):
        who, _, rest = t.partition(":")
        if rest.startswith("!"):
            txt = rest[1:]
            c0 = txt[0]
            if txt.startswith("out"):
                nums = [int(x) for x in txt.split()[1:]]
                observed = (nums[0], nums[1:])
            elif c0 == "c":
                a, b = txt[1:].split(" ")
                evs.append(("C", int(a)) + res_of_code(int(b)))
            elif c0 == "r":
                pass
            elif txt in ("invalid", "valid"):
                observed = (txt, [])
            else:
                raise MapError("unknown harness event " + t)
            continue
        m = TOKRE.match(rest)
        if not m:
            raise MapError("unknown trace token " + t)
        op, loc, idx, val = m.group(1), m.group(2), m.group(3), m.group(4)
        if loc == "w":
            i = int(idx)
            old = cur.get(("w", i), "E")
            if op == "exchange":
                if val != "R":
                    raise MapError("exchange on a callback word to " + val)
                evs.append(("X", i, WORDS[old]))
                cur[("w", i)] = "R"
                if old == "C":
                    curin[who] = i
            elif op in ("compare_exchange_strong", "compare_exchange_weak"):
                if who != "B" or i != breg:
                    raise MapError("unexpected CAS on a callback word: " + t)
                ok = old == "E" and val == "C"
                if not ok and val != "R":
                    raise MapError("failed CAS left " + val)
                evs.append(("R", i, 1 if ok else 0))
                cur[("w", i)] = val
                breg += 1
                if not ok:
                    curin[who] = i
            elif op == "load":
                if who == "main":
                    pass      # the harness reading the shared input again through its surviving handle
                elif who == "B" and i == breg:
                    if val == "R":
                        evs.append(("R", i, 0))
                        breg += 1
                        curin[who] = i
                    elif val != "E":
                        raise MapError("pre-check load saw " + val)
                elif val == "R":
                    # ~ResultCore re-reads the word: the input state is being destroyed
                    if is_shared(sc, i):
                        pass  # last reference (maybe the promise's) dropped: not the combinator's release
                    elif owned:
                        if dtor is None or dtor[0] != who:
                            raise MapError("owned input destroyed outside the destructor: " + t)
                        evs.append(("DF", dtor[1], i))
                    else:
                        evs.append(("F", i))
                else:
                    raise MapError("unexpected load of a callback word: " + t)
            else:
                raise MapError("unexpected operation on a callback word: " + t)
        elif loc == "rc":
            i = int(idx)
            if op == "load" or who == "main":      # main: the harness dropping its surviving handle at the end
                continue
            if op != "fetch_sub":
                raise MapError("unexpected operation on a reference counter: " + t)
            if pos in own:
                continue
            if owned:
                if dtor is None or dtor[0] != who:
                    raise MapError("owned input released outside the destructor: " + t)
                evs.append(("DF", dtor[1], i))
            else:
                evs.append(("F", i))
        elif loc == "d":
            old = cur.get("d", "0")
            if who not in curin:
                raise MapError("strategy operation outside a consume step: " + t)
            if op == "load":
                evs.append(("LD", curin[who], 1 if val == "1" else 0))
            elif op == "exchange":
                evs.append(("XD", curin[who], 1 if old == "1" else 0))
                cur["d"] = val
            else:
                raise MapError("unexpected operation on _done: " + t)
        elif loc == "s":
            if "s" not in cur:
                cur["s"] = str(2 * sc["n"]) if sg == "SAnyLF" else "0"
            old = cur["s"]
            if who not in curin:
                raise MapError("strategy operation outside a consume step: " + t)
            i = curin[who]
            if op == "load":
                evs.append(("LS", i, val))
            elif op == "exchange":
                evs.append(("XS", i, old))
                cur["s"] = val
            elif op == "compare_exchange_strong":
                ok = old == "0" and val == "1"
                evs.append(("CS", i, 1 if ok else 0))
                cur["s"] = val
            elif op == "fetch_sub":
                evs.append(("SS", i, old))
                cur["s"] = val
            else:
                raise MapError("unexpected operation on _state: " + t)
        elif loc == "count":
            if op != "fetch_sub":
                raise MapError("unexpected operation on the combinator counter: " + t)
            if who not in curin:
                raise MapError("DecRef outside a consume step: " + t)
            evs.append(("D", curin[who], int(val) + 1))
            if val == "0":
                dtor = (who, curin[who])
        elif loc == "o":
            if op != "exchange":
                raise MapError("unexpected operation on the output word: " + t)
            if dtor is not None and dtor[0] == who:
                evs.append(("P", dtor[1]))
            else:
                if who not in curin:
                    raise MapError("output set outside a consume step: " + t)
                evs.append(("SO", curin[who]))
        else:
            raise MapError("unknown location in " + t)
    return tuple(evs), observed


BOOL = {0: "false", 1: "true"}


def render_coq(e):
    k = e[0]
    if k == "C":
        return "EComplete %d (%s %d)" % (e[1], ("RVal", "RErr", "RExc")[e[2]], e[3])
    if k == "X":
        return "EXchg %d %s" % (e[1], ("WE", "WC", "WR")[e[2]])
    if k == "R":
        return "EReg %d %s" % (e[1], BOOL[e[2]])
    if k == "F":
        return "EFree %d" % e[1]
    if k == "LD":
        return "ELdDone %d %s" % (e[1], BOOL[e[2]])
    if k == "XD":
        return "EXchgDone %d %s" % (e[1], BOOL[e[2]])
    if k == "LS":
        return "ELdState %d %s%%N" % (e[1], e[2])
    if k == "XS":
        return "EXchgState %d %s%%N" % (e[1], e[2])
    if k == "CS":
        return "ECasState %d %s" % (e[1], BOOL[e[2]])
    if k == "SS":
        return "ESubState %d %s%%N" % (e[1], e[2])
    if k == "SO":
        return "ESetOut %d" % e[1]
    if k == "D":
        return "EDec %d %d" % (e[1], e[2])
    if k == "DF":
        return "EDFree %d %d" % (e[1], e[2])
    if k == "P":
        return "EPublish %d" % e[1]
    raise ValueError(e)


def render_ml(e):
    return ":".join(str(x) for x in e)


def decode_obs(r):
    """WhenObs.obs_state -> dict"""
    if r[0] == 0:
        return dict(rejected=r[1])
    d = dict(rejected=None, terminal=r[1], crashed=r[2], deleted=r[3], count=r[4])
    k = r[5]
    p = 6
    outs = []
    for _ in range(k):
        by, dt, kind, ln = r[p:p + 4]
        outs.append(dict(by=by, dtor=dt, kind=kind, codes=r[p + 4:p + 4 + ln]))
        p += 4 + ln
    d["outs"] = outs
    n = r[p]
    p += 1
    d["inputs"] = [(r[p + 2 * i], r[p + 2 * i + 1]) for i in range(n)]
    p += 2 * n
    d["win"], d["dt"] = r[p] - 1, r[p + 1] - 1
    return d


def expected_out(sc, observed):
    """What the model must predict for the observed output codes: (kind, codes in WhenObs encoding).
    kind 0 vector / 1 unit / 2 single outcome."""
    cnt, codes = observed
    k = sc["kind"]
    if k.startswith("any"):
        return 2, [enc_of_code(c) for c in codes]
    first_fail = k in ("allff", "joinff")
    if first_fail and len(codes) == 1 and codes[0] >= 2000:
        return 2, [enc_of_code(codes[0])]          # FirstFail: the failure
    if k in ("join", "joinff") or (k == "allff" and sc["typ"] == "void"):
        return 1, []
    return 0, [enc_of_code(c) for c in codes]


def compare(sc, observed, model):
    """'' if the model's prediction equals the observation, else a description."""
    if model is None:
        return "model evaluation failed"
    if model["rejected"] is not None:
        return "model rejects event #%d" % model["rejected"]
    if observed is None or observed[0] != 1:
        return "implementation set the output %s times" % (observed[0] if observed else "?")
    if len(model["outs"]) != 1:
        return "model predicts %d output sets" % len(model["outs"])
    kind, codes = expected_out(sc, observed)
    o = model["outs"][0]
    if o["kind"] != kind or (kind != 1 and o["codes"] != codes):
        return "model predicts output kind %d codes %s; implementation showed kind %d codes %s" % (o["kind"], o["codes"], kind, codes)
    if not model["terminal"] or model["crashed"] or model["deleted"] != 1 or model["count"] != 0:
        return "model not terminal at the end of the implementation run: terminal=%s crashed=%s deleted=%s count=%s" % (
            model["terminal"], model["crashed"], model["deleted"], model["count"])
    if any(x != (1, 1) for x in model["inputs"]):
        return "model: inputs (released, consumed) = %s" % (model["inputs"],)
    return ""


# ------------------------------------------------------------------------------------------------ replay inside Coq

def coq_eval_many(groups, name, batch=60, timeout=900):
    """groups: list of (strategy, n, [events, ...]).  Returns, aligned with the flattened input, the decoded
    observation of each trace (None when the evaluation failed)."""
    terms, sizes = [], []
    for sg, n, trs in groups:
        for k in range(0, len(trs), batch):
            chunk = trs[k:k + batch]
            terms.append("obs_many %s %d [%s]" % (sg, n, "; ".join("[" + "; ".join(render_coq(e) for e in t) + "]" for t in chunk)))
            sizes.append(len(chunk))
    res, logs = vlib.coq_eval_cases(HEADER, terms, name, shard=40, timeout=timeout) if terms else ([], [])
    out = []
    for r, k in zip(res, sizes):
        if r is None:
            out.extend([None] * k)
            continue
        p, got = 0, []
        while p < len(r):
            ln = r[p]
            got.append(decode_obs(r[p + 1:p + 1 + ln]))
            p += 1 + ln
        out.extend(got if len(got) == k else [None] * k)
    return out, logs


# ------------------------------------------------------------------------------------------------ the extracted model

def build_replayer():
    """Extract WhenObs.obs_nat to OCaml and compile it with checks/when_replay.ml.  Cached by content."""
    coq = vlib.COQ
    srcs = [os.path.join(coq, "model", "When.v"), os.path.join(coq, "model", "WhenObs.v"),
            os.path.join(vlib.VERIF, "checks", "when_replay.ml")]
    h = hashlib.sha1()
    for s in srcs:
        h.update(open(s, "rb").read())
    base = os.environ.get("VERIF_WHEN_CACHE", "/var/tmp/yaclib-verif-when")   # not inside vlib.CACHE: that one is pruned
    os.makedirs(base, exist_ok=True)
    d = os.path.join(base, "replay_" + h.hexdigest()[:12])
    exe = os.path.join(d, "when_replay")
    if os.path.exists(exe):
        return exe
    tmp = d + ".tmp%d" % os.getpid()
    os.makedirs(tmp, exist_ok=True)
    open(os.path.join(tmp, "ext.v"), "w").write(
        "From Coq Require Import Extraction ExtrOcamlBasic.\nFrom YV Require Import model.When model.WhenObs.\n"
        "Extraction \"when_model.ml\" obs_nat.\n")
    r = vlib.sh(["coqc", "-Q", coq, "YV", "ext.v"], cwd=tmp, timeout=300)
    if r.returncode != 0:
        raise vlib.BuildError("extraction of the When model failed:\n" + r.stdout[-3000:])
    shutil.copy(srcs[2], os.path.join(tmp, "when_replay.ml"))
    r = vlib.sh(["ocamlfind", "ocamlopt", "-w", "-a", "when_model.mli", "when_model.ml", "when_replay.ml", "-o", "when_replay"],
                cwd=tmp, timeout=300)
    if r.returncode != 0:
        raise vlib.BuildError("compilation of the extracted When model failed:\n" + r.stdout[-3000:])
    try:
        os.rename(tmp, d)
    except OSError:
        shutil.rmtree(tmp, ignore_errors=True)
    return exe


def replay_ml(exe, items, workers=None):
    """items: list of (strategy, n, events).  Returns the decoded observations, aligned."""
    workers = workers or max(2, vlib.NPROC // 2)
    chunks = [items[k::workers] for k in range(workers)]

    def run(chunk):
        if not chunk:
            return []
        inp = "\n".join("%s %d %s" % (sg, n, " ".join(render_ml(e) for e in evs)) for sg, n, evs in chunk) + "\n"
        r = subprocess.run([exe], input=inp, stdout=subprocess.PIPE, stderr=subprocess.PIPE, text=True)
        lines = r.stdout.split("\n")
        out = []
        for k in range(len(chunk)):
            try:
                out.append(decode_obs([int(x) for x in lines[k].split()]))
            except Exception:
                out.append(None)
        return out

    with concurrent.futures.ThreadPoolExecutor(workers) as ex:
        parts = list(ex.map(run, chunks))
    res = [None] * len(items)
    for k, part in enumerate(parts):
        for j, v in enumerate(part):
            res[k + j * workers] = v
    return res


# ------------------------------------------------------------------------------------------------ exploration jobs

def run_job(job):
    """One harness invocation (runs in a worker process).  job = dict(exe, args, harness).  Returns a summary: header rows,
    failing executions, and the distinct model-level traces (deduplicated after the mapping)."""
    try:
        rows, out, err, rc = runner.run_harness(job["exe"], job["args"], timeout=job.get("timeout", 1500))
    except (FileNotFoundError, PermissionError):
        # the shared build cache was pruned by a concurrent check of another tree: the driver rebuilds and retries
        return dict(job=dict(args=job["args"], harness=job["harness"]), missing=True, heads=[], fails=[], maperr=[],
                    distinct={}, raw=0, crash=None)
    heads = [r for r in rows if "mode" in r]
    fails, maperr, distinct = [], [], {}
    raw = 0
    crash = None
    if rc != 0:
        m = re.search(r"CRASH signal=(\d+) choices=([\d,]*)", out + err)
        # the scenario that was running: the first one of this invocation that has not printed its summary
        done = set(h["scenario"] for h in heads)
        running = next((nm for nm in job.get("names", []) if nm not in done), None)
        crash = dict(rc=rc, text=(err or out)[-1500:], choices=(m.group(2).strip(",") if m else None), scenario=running)
    for r in rows:
        if "trace" not in r:
            continue
        raw += 1
        if r["fail"]:
            fails.append(r)
            continue
        if job.get("oracle_only"):
            continue
        sc = parse_name(r["scenario"])
        if not has_model(sc):
            continue
        try:
            evs, obs = to_events(sc, r["trace"])
        except MapError as e:
            maperr.append(dict(scenario=r["scenario"], why=str(e), trace=r["trace"], choices=r["choices"],
                               yield_at=job.get("yield_at", "before")))
            continue
        key = (strategy(sc), sc["n"], evs, tuple(obs[1]) if obs else None)
        d = distinct.get(key)
        if d is None:
            distinct[key] = dict(scenario=r["scenario"], trace=r["trace"] if len(distinct) < 40 else None,
                                 choices=r["choices"], observed=obs, count=r["count"], yield_at=job.get("yield_at", "before"))
        else:
            d["count"] += r["count"]
    return dict(job=dict(args=job["args"], harness=job["harness"]), heads=heads, fails=fails, maperr=maperr,
                distinct=distinct, raw=raw, crash=crash)


def interleaved(evs):
    """A model-level trace is contended when the steps of two different inputs interleave: some input's events
    (registration, exchange, consume step) are not contiguous because another input's event lies between them."""
    seen, last = set(), None
    for e in evs:
        if e[0] == "C":
            continue
        i = e[1]
        if i != last:
            if i in seen:
                return True
            seen.add(i)
            last = i
    return False


# ------------------------------------------------------------------------------------------------ the check driver

def compile_parts(cfg, source, name, nparts):
    """Compile the harness parts (-DWH_PART=k) in parallel; returns {part: exe}.  nparts: a count or the list of parts."""
    parts = list(range(nparts)) if isinstance(nparts, int) else list(nparts)
    vlib.build(cfg)  # once, under its lock, before the parallel harness builds

    def comp(p):
        exe, b = vlib.compile_harness(cfg, [source], "%s_p%d" % (name, p), extra=["-DWH_PART=%d" % p])
        return p, exe

    with concurrent.futures.ThreadPoolExecutor(min(len(parts), max(2, vlib.NPROC // 2))) as ex:
        return dict(ex.map(comp, parts))


def list_scenarios(exes):
    """{scenario name: part}"""
    where = {}
    for p, exe in exes.items():
        r = subprocess.run([exe, "--list"], stdout=subprocess.PIPE, text=True, timeout=60)
        for line in r.stdout.split():
            where[line] = p
    return where


# forms explored exhaustively already in the quick tier (the thorough tier does all of them)
QUICK_EXHAUSTIVE = ("vecUval", "varUhet", "vecUvoid")


def plan(tier, seed, where, exes, harness, quick_exhaustive=QUICK_EXHAUSTIVE):
    """The exploration jobs: one harness invocation per (configuration, arrangement)."""
    groups = {}
    names = {}
    for name, p in where.items():     # insertion order = registration order = execution order
        sc = parse_name(name)
        groups.setdefault((sc["cfg"], sc["arr"]), (sc, p))
        names.setdefault((sc["cfg"], sc["arr"]), []).append(name)
    jobs = []
    for k, ((cfg, arr), (sc, p)) in enumerate(sorted(groups.items())):
        n, shared = sc["n"], sc["inputs"] != "U"
        only = "%s/%s/" % (cfg, arr)
        if n <= 1:
            mode, args = "dfs", ["--mode", "dfs", "--max", "200000"]
        elif n == 2 and arr != "p":
            fi = cfg.split("/")[1]
            if tier == "thorough" and shared:
                # SharedFuture inputs add the shared state's own reference counting to every interleaving: capped
                mode, args = "dfs-capped", ["--mode", "dfs", "--max", "30000"]
            elif tier == "thorough":
                mode, args = "dfs", ["--mode", "dfs", "--max", "1500000"]
            elif fi in quick_exhaustive and arr != "q01":
                mode, args = "dfs", ["--mode", "dfs", "--max", "300000"]
            else:
                mode, args = "dfs-pb2", ["--mode", "dfs", "--pb", "2", "--max", "4000"]
        elif n == 2:
            if tier == "thorough":
                mode, args = "dfs-pb3", ["--mode", "dfs", "--pb", "3", "--max", "30000"]
            else:
                mode, args = "dfs-pb2", ["--mode", "dfs", "--pb", "2", "--max", "4000"]
        else:
            cnt = (400 if n == 3 else 150) if tier == "thorough" else (40 if n == 3 else 12)
            mode, args = "random", ["--mode", "random", "--max", str(cnt), "--seed", str(seed * 100000 + k * 97)]
        # Where the explorer offers a fiber switch (--yield-at, see .agents/YIELD_AT.md): `before` the wrapped operation is
        # the classic pass; `after` stops a fiber right after its CAS / exchange / fetch_sub, before the plain code that
        # follows (e.g. a plain store moved behind the publishing operation).  Unbounded DFS suites run once with each;
        # random and small-preemption-bound suites (capped, fixed cost) offer the switch at both places; in the thorough
        # tier the bounded/capped DFS suites also run once with each.
        only_before = os.environ.get("VERIF_WHEN_YIELD") == "before"      # experiments: the pre-2026-09-26 plan
        if only_before:
            passes = ["before"]
        elif mode == "random":
            passes = ["both"]
        elif mode == "dfs" or tier == "thorough":
            passes = ["before", "after"]
        else:
            passes = ["both"]
        for ya in passes:
            jobs.append(dict(exe=exes[p], harness=harness, part=p, cfg=cfg, arr=arr, n=n,
                             mode=mode if ya == "before" else mode + "@" + ya, yield_at=ya,
                             args=args + ["--yield-at", ya, "--only", only], names=names[(cfg, arr)], timeout=1700))
    return jobs


SHARED_HARNESS = "h_when_shared"


def plan_shared(tier, seed, where, exes):
    """Jobs of harness/h_when_shared.cpp (SharedFuture inputs with other consumers): oracle only.
    Names: <set>/<what>/<form>/<layout>/<arrangement>/<pattern>."""
    groups = {}
    for name, p in where.items():
        pre = name.rsplit("/", 1)[0]
        groups.setdefault(pre, (p, []))[1].append(name)
    jobs = []
    for k, (pre, (p, names)) in enumerate(sorted(groups.items())):
        arr = pre.split("/")[4]
        base = dict(exe=exes[p], harness=SHARED_HARNESS, part=p, cfg="/".join(pre.split("/")[:4]), arr=arr, n=2,
                    names=names, oracle_only=True, timeout=1700)
        only = ["--only", pre + "/"]
        if arr == "seq":     # one fiber: the only decision is the order of the steps, all orders
            passes = [("shared-seq", "before", ["--mode", "dfs", "--max", "5000"])]
        elif arr == "p":
            cnt = "150" if tier == "thorough" else "25"
            passes = [("shared-random@both", "both", ["--mode", "random", "--max", cnt, "--seed", str(seed * 100003 + k * 89)])]
        elif tier == "thorough":
            passes = [("shared-pb3", "before", ["--mode", "dfs", "--pb", "3", "--max", "3000"]),
                      ("shared-pb3@after", "after", ["--mode", "dfs", "--pb", "3", "--max", "3000"])]
        else:
            passes = [("shared-pb2@both", "both", ["--mode", "dfs", "--pb", "2", "--max", "1000"])]
        for mode, ya, args in passes:
            jobs.append(dict(base, mode=mode, yield_at=ya, args=args + ["--yield-at", ya] + only))
    return jobs


def run_check(ck, pid, harness, nparts, props, quick_exhaustive=QUICK_EXHAUSTIVE, shared_parts=(), shared_sets=()):
    """Everything C09 and C10 have in common."""
    import runner as _r
    t0 = time.time()
    ck.assumptions = [
        "FIBER backend: sequentially consistent, fibers switch only at the wrapped yaclib_std operations (memory orders are C04's subject)",
        "model coq/model/When.v: n inputs, each handed off by C01's protocol (the producer's exchange and the builder's SetCallback are events; the builder's pre-check load that returns Empty is not), reference counter, the strategy's atomic word, output promise; which callback object is attached (Single/Static/DynamicCombinator), executors and the consumer of the output future are exercised, not modelled",
        "Any<LastFail>: 2*n < 2^64 (fits size_t), hypothesis [fits] of the theorems",
        "the input's producer is a plain Promise::Set / SharedPromise::Set; in the modelled runs a SharedFuture input is the only callback on its shared state; shared inputs with further consumers (a second combinator, a plain continuation) are covered by the oracle-only scenarios of harness/h_when_shared.cpp (coverage.shared_consumers)",
    ]
    ck.cov["trusted_base"] = [
        "Coq 8.16.1 kernel; vm_compute for the in-Coq replay and the Example witnesses",
        "Print Assumptions of every theorem in %s: Closed under the global context (no axioms)" % props,
        "OCaml extraction of WhenObs.obs_nat + checks/when_replay.ml + ocamlopt 4.13 for the bulk replay (cross-checked against vm_compute on a sample of the same traces every run)",
        "checks/when_common.py trace-to-event mapping (syntactic) and harness/when_h.hpp oracle (property text only)",
        "YACLIB_VERIF hooks in the fault layer; FIBER scheduler and fiber atomics (C17-C19 are about those)",
    ]
    ck.prove(props, ["model/WhenObs.vo"])
    src = os.path.join(vlib.VERIF, "harness", harness + ".cpp")
    exes = compile_parts("F", src, harness, nparts)
    where = list_scenarios(exes)
    jobs = plan(ck.tier, ck.seed, where, exes, harness, quick_exhaustive)
    sources = {harness: (src, nparts)}
    if shared_parts:
        src2 = os.path.join(vlib.VERIF, "harness", SHARED_HARNESS + ".cpp")
        sources[SHARED_HARNESS] = (src2, list(shared_parts))
        exes2 = compile_parts("F", src2, SHARED_HARNESS, shared_parts)
        where2 = {nm: p for nm, p in list_scenarios(exes2).items() if nm.split("/")[0] in shared_sets}
        where.update(where2)
        jobs += plan_shared(ck.tier, ck.seed, where2, exes2)
    replayer = build_replayer()
    results = [None] * len(jobs)
    todo = list(range(len(jobs)))
    for attempt in range(4):
        with concurrent.futures.ProcessPoolExecutor(max(2, (vlib.NPROC * 3) // 4)) as ex:
            for k, res in zip(todo, ex.map(run_job, [jobs[k] for k in todo], chunksize=1)):
                results[k] = res
        todo = [k for k in todo if results[k].get("missing")]
        if not todo:
            break
        for hname in sorted(set(jobs[k]["harness"] for k in todo)):      # rebuilt (the cache entry had been pruned)
            rebuilt = compile_parts("F", sources[hname][0], hname, sources[hname][1])
            for k in todo:
                if jobs[k]["harness"] == hname:
                    jobs[k]["exe"] = rebuilt[jobs[k]["part"]]
    if todo:
        raise vlib.BuildError("the harness executables keep disappearing from the build cache (concurrent pruning)")
    t_explore = time.time() - t0
    # ---- thorough tier: the same harness under ASan + UBSan (use-after-free / double free / leak of an input state, of the
    # combinator or of the output state), seeded random schedules over every scenario
    asan = None
    if ck.tier == "thorough":
        fa = {hname: compile_parts("FA", sp[0], hname, sp[1]) for hname, sp in sources.items()}
        fa_jobs = []
        seen = {}
        for j in jobs:
            seen.setdefault((j["harness"], j["cfg"], j["arr"]), j)
        for k, ((hname, cfg, arr), j) in enumerate(sorted(seen.items(), key=lambda kv: kv[0])):
            fa_jobs.append(dict(exe=fa[hname][j["part"]], harness=hname, part=j["part"], cfg=cfg, arr=arr, mode="asan-random",
                                names=j["names"], yield_at="both", oracle_only=j.get("oracle_only", False),
                                args=["--mode", "random", "--max", "12" if hname == harness else "6",
                                      "--seed", str(ck.seed * 7919 + k),
                                      "--yield-at", "both", "--only", "%s/%s/" % (cfg, arr)], timeout=1700))
        with concurrent.futures.ProcessPoolExecutor(max(2, (vlib.NPROC * 3) // 4)) as ex:
            fa_results = list(ex.map(run_job, fa_jobs, chunksize=1))
        asan = dict(scenarios=sum(len(r["heads"]) for r in fa_results),
                    executions=sum(h["executions"] for r in fa_results for h in r["heads"]))
        ck.cov["asan"] = asan
        jobs = jobs + fa_jobs
        results = results + fa_results
    # ---- oracle verdicts
    heads = [h for r in results for h in r["heads"]]
    ck.cov["evaluations"] = sum(h["executions"] for h in heads)
    ck.cov["scenarios"] = len(heads)
    by_mode = {}
    for job, r in zip(jobs, results):
        m = by_mode.setdefault(job["mode"], dict(scenarios=0, executions=0, exhaustive=0))
        for h in r["heads"]:
            m["scenarios"] += 1
            m["executions"] += h["executions"]
            m["exhaustive"] += 1 if h["exhaustive"] else 0
    ck.cov["exploration"] = by_mode
    if shared_parts:
        sh = [m for k, m in by_mode.items() if k.startswith("shared")]
        ck.cov["shared_consumers"] = dict(
            harness="harness/%s.cpp" % SHARED_HARNESS, sets=list(shared_sets),
            scenarios=sum(m["scenarios"] for m in sh), executions=sum(m["executions"] for m in sh),
            level="oracle only",
            note=("SharedFuture inputs that have other consumers: two combinators over a common shared input (layouts (a,b)+(a,c), "
                  "(a,b)+(c,a), (a,b)+(b,a); variadic and iterator form) and a combinator next to a plain SubscribeInline continuation "
                  "attached before or concurrently.  Each combinator is judged by the same oracle as alone, the other consumer must fire "
                  "exactly once, every shared state / combinator / output state must be freed exactly once.  In terms of When.v the pair is "
                  "two instances of the transition system that synchronise on the shared input: one EComplete and ONE exchange of its "
                  "callback word, which is EXchg in both instances (old = WC for the instances whose callback is in the list at that "
                  "moment, WE for the others, which then see EReg false), after which the producer's thread runs the consume steps of the "
                  "listed instances one after the other in list order; the instances share nothing else, so every theorem of the "
                  "property holds for each instance PROVIDED the shared state's callback list delivers each registered callback exactly "
                  "once with its own input - that proviso (C06's subject, and the place where a callback object registered on two inputs "
                  "breaks) is what these scenarios test; their traces are not replayed through When.run"))
    dfs = [m for k, m in by_mode.items() if k in ("dfs", "dfs@after")]
    ck.cov["exhaustive"] = bool(dfs) and all(m["scenarios"] > 0 and m["exhaustive"] == m["scenarios"] for m in dfs)
    for job, r in zip(jobs, results):
        config = "FA" if job["mode"].startswith("asan") else "F"
        if r["crash"]:
            ck.hits.append(dict(what="%s: harness crashed (rc=%s) %s" % (job["cfg"], r["crash"]["rc"], r["crash"]["text"][-600:]),
                                key="crash:" + job["cfg"].split("/")[0],
                                replay=dict(harness=job["harness"], config=config, part=job["part"], args=job["args"],
                                            scenario=r["crash"].get("scenario"), choices=r["crash"]["choices"],
                                            yield_at=job.get("yield_at", "before"))))
        for f in r["fails"]:
            kind = f["scenario"].split("/")[1] if job.get("oracle_only") else parse_name(f["scenario"])["kind"]
            ck.hits.append(dict(what="%s: %s" % (f["scenario"], f["fail"]),
                                key=kind + ":" + re.sub(r"\d+", "N", f["fail"])[:48].replace(" ", "_"),
                                replay=dict(harness=job["harness"], config=config, part=job["part"], scenario=f["scenario"],
                                            choices=f["choices"], trace=f["trace"], yield_at=job.get("yield_at", "before"))))
        for e in r["maperr"][:3]:
            ck.gen_obligation("correspondence When (trace vocabulary) on %s" % e["scenario"], False,
                              "%s\ntrace: %s\nchoices: %s\nyield_at: %s" % (e["why"], e["trace"], e["choices"], e.get("yield_at")))
    # ---- correspondence: every distinct model-level trace replayed through the model
    merged = {}
    raw = 0
    for r in results:
        raw += r["raw"]
        for key, d in r["distinct"].items():
            if key in merged:
                merged[key]["count"] += d["count"]
            else:
                merged[key] = d
    keys = list(merged.keys())
    obs = replay_ml(replayer, [(k[0], k[1], k[2]) for k in keys])
    bad = []
    validated, nontriv = 0, 0
    for k, o in zip(keys, obs):
        d = merged[k]
        why = compare(parse_name(d["scenario"]), d["observed"], o)
        if why:
            bad.append((d, why))
        else:
            validated += 1
            if interleaved(k[2]):
                nontriv += 1
    # the same function evaluated by Coq itself on a deterministic sample (all of them when few)
    limit = 6000 if ck.tier == "thorough" else 1500
    step = max(1, len(keys) // limit)
    sample = keys[::step]
    groups = {}
    for k in sample:
        groups.setdefault((k[0], k[1]), []).append(k)
    glist = [(sg, n, [k[2] for k in ks]) for (sg, n), ks in sorted(groups.items())]
    order = [k for (sg, n), ks in sorted(groups.items()) for k in ks]
    cres, logs = coq_eval_many(glist, pid.lower()) if glist else ([], [])
    ml = dict(zip(keys, obs))
    coq_ok = 0
    for k, o in zip(order, cres):
        if o is None:
            ck.gen_obligation("in-Coq replay of a sampled trace (%s)" % merged[k]["scenario"], False, (logs[0] if logs else "")[-1500:])
            break
        if o != ml[k]:
            ck.gen_obligation("extracted model vs vm_compute on %s" % merged[k]["scenario"], False,
                              "OCaml: %s\nCoq: %s\ntrace: %s" % (ml[k], o, merged[k]["trace"]))
            break
        coq_ok += 1
    ck.cov["distinct_traces"] = raw
    ck.cov["distinct_model_traces"] = len(keys)
    ck.cov["traces_validated_against_impl"] = validated
    ck.cov["traces_validated_inside_coq"] = coq_ok
    ck.cov["distinct_nontrivial"] = nontriv
    ck.cov["rule"] = ("implementation executions of harness/%s.cpp (configuration F) explored per scenario <kind>/<form>/<n>/<arrangement>/<pattern>: "
                      "exhaustive DFS over every scheduling decision for n<=2 with one producer fiber completing the inputs in either order (q01,q10) "
                      "or two producer fibers after the builder (pp) [quick: Future inputs exhaustive, SharedFuture/mixed preemption-bounded]; "
                      "preemption-bounded DFS for two producers racing the builder (p); seeded random schedules for n=3,4; "
                      "every unbounded DFS suite runs twice, with the fiber switch offered before and after each wrapped operation (--yield-at), "
                      "random and bounded suites offer it at both places (thorough: bounded DFS also once with each); "
                      "each execution is mapped to events of When.v and deduplicated; distinct_model_traces counts distinct (strategy, n, event sequence, observed output); "
                      "non-trivial = the steps of two different inputs interleave (some input's registration/exchange/consume events are not contiguous)") % harness
    with_text = [k for k in keys if merged[k]["trace"] is not None]
    ck.cov["samples"] = [dict(scenario=merged[k]["scenario"], trace=merged[k]["trace"], choices=merged[k]["choices"],
                              yield_at=merged[k].get("yield_at", "before"),
                              events=[render_coq(e) for e in k[2]], executions=merged[k]["count"])
                         for k in with_text[:2] + [k for k in with_text if interleaved(k[2])][:3]]
    ck.cov["wall_explore_s"] = round(t_explore, 1)
    for d, why in bad[:10]:
        trace = d["trace"]
        if trace is None:
            try:
                rows, _o, _e, _rc = runner.run_harness(exes[where[d["scenario"]]],
                                                       ["--mode", "replay", "--exact", d["scenario"], "--choices", d["choices"],
                                                        "--yield-at", d.get("yield_at", "before")])
                trace = next((r["trace"] for r in rows if "trace" in r), None)
            except Exception:
                pass
        ck.broken.append(dict(name="correspondence When.run vs implementation on %s" % d["scenario"],
                              detail="%s\ntrace: %s\nchoices: %s\nyield_at: %s" % (why, trace, d["choices"], d.get("yield_at", "before"))))
    if not keys:
        ck.broken.append(dict(name="correspondence When.run vs implementation", detail="the harness produced no traces"))
    return dict(exes=exes, jobs=jobs, results=results, merged=merged)


def replay_hit(ck, path, harness, nparts):
    d = json.load(open(path))
    rp = d.get("replay") or {}
    if not rp.get("scenario") and not rp.get("args"):
        print("nothing to replay: %s" % json.dumps(d)[:2000])
        return 0
    harness = rp.get("harness") or harness
    src = os.path.join(vlib.VERIF, "harness", harness + ".cpp")
    part = rp.get("part", 0)
    exe, b = vlib.compile_harness(rp.get("config", "F"), [src], "%s_p%d" % (harness, part), extra=["-DWH_PART=%d" % part])
    if rp.get("scenario"):
        args = ["--mode", "replay", "--exact", rp["scenario"], "--choices", rp.get("choices") or "",
                "--yield-at", rp.get("yield_at") or "before"]
    else:
        args = rp["args"]            # the whole invocation, its own --yield-at included
    rows, out, err, rc = runner.run_harness(exe, args)
    print(out[-4000:])
    if err:
        print(err[-2000:])
    bad = any(r.get("fail") for r in rows if "trace" in r)
    return 1 if bad or rc != 0 else 0
