"""C11 — Wait / WaitFor / WaitUntil: return value vs readiness, timeout only after the deadline, futures intact
afterwards, nobody touches the waiter's stack event after the call returned.
Proof: coq/props/Properties_C11.v (invariant of the WaitEv LTS: any number n of futures, all schedules, the timeout
       available at any moment of the timed wait; composition with the C01 model Handoff for whoever consumes a future
       afterwards).
Tie:   every explored interleaving of the real WaitCore/WaitIterator/WaitRange code (FIBER backend; exhaustive DFS for
       n = 1, DFS for n = 2 (preemption-bounded where stated), seeded random walks for n = 3; deadlines before / between /
       after the completions) is replayed through WaitEv.run inside Coq: the model must accept every operation with
       the observed value (words, counter values, lock order) and predict the observed return value and final words;
       the per-future suffix after the return is replayed through Handoff.run from WaitEv.proj of the model's state.
Oracle (property text) runs inside the harness on every execution; the 'no completion touches the waiter after the
       call returned' clause is checked here on the trace (stack event traced through trace_unknown) and by ASan."""
import json, os, re, time
import vlib, runner

FORMS = {"w": (False, "u"), "wi": (False, "u"), "wf": (True, "u"), "wfi": (True, "u"), "wu": (True, "u"),
         "wui": (True, "u"), "sw": (False, "s"), "swi": (False, "s"), "mw": (False, "m")}
WORD = {"E": "WE", "C": "WC", "R": "WR"}
LATER_KIND = {0: "Handoff.KGet", 1: "Handoff.KAttach", 2: "Handoff.KSilent"}


def parse_scenario(name):
    form, n, d, l = name.split("/")
    return form, int(n[1:]), int(d[1:]), int(l[1:])


def is_shared(form, n, i):
    kind = FORMS[form][1]
    if kind == "s":
        return True
    if kind == "m":
        return (i == 1) if n == 2 else (i != 1)
    return False


class Vocabulary(ValueError):
    pass


def to_events(name, trace):
    """Implementation trace -> model events.  Purely syntactic, except that (as in C01) the value returned by an
    exchange / the success of a CAS is reconstructed from the previous value of the word (the FIBER backend is
    sequentially consistent), and that the two transitions internal to the condition variable are inferred:
      EWaitEnter  before the first producer lock of the event's mutex after the waiter took / re-took it, or before the
                  wait's own return record, or (no wait record at all) before the waiter's unlock;
      ETimeout    before the return record of a timed wait if no notify_one on the event's condvar occurred so far."""
    form, n, d, l = parse_scenario(name)
    toks = [t for t in trace.split(";") if t]
    cur = ["E"] * n
    evs = []                     # WaitEv events (Gallina)
    later = {i: [] for i in range(n)}     # Handoff events per future after the return
    lobs = {i: dict(cbs=[], gots=[]) for i in range(n)}
    phase = "pre"
    ret = None
    in_chk = False
    lat_i = None
    w_holds = False
    entered = True
    wait_seen = False
    notify_seen = False
    cas_pending = set()          # words whose registration pre-check saw Empty and whose CAS has not been traced yet
    weak_rereads = [0]
    ev_addr = {}                 # role -> u-name of the stack event's counter / mutex / condvar
    got_event_before_ret = set() # producers whose exchange returned the waiter's event
    xchg_done = set()
    touches_after_ret = []
    words_at_ret = None
    ops_w, ops_p = 0, 0
    contended = False

    def role(op):
        if op in ("fetch_sub", "fetch_add"):
            return "cnt"
        if op in ("lock", "unlock", "try_lock"):
            return "m"
        if op in ("wait", "wait_for", "wait_until", "notify_one", "notify_all"):
            return "cv"
        return None

    def check_addr(op, loc, tok):
        r = role(op)
        if r is None:
            raise Vocabulary("unexpected operation on an unnamed object: " + tok)
        if r in ev_addr and ev_addr[r] != loc:
            raise Vocabulary("operation on a second %s object: %s (event's is %s)" % (r, tok, ev_addr[r]))
        ev_addr[r] = loc
        return r

    for tok in toks:
        who, _, rest = tok.partition(":")
        if who in ("main", "T"):
            continue
        if rest.startswith("!"):
            f = rest[1:].split(" ")
            if who == "W":
                if f[0] == "call":
                    phase = "call"
                elif f[0] == "ret":
                    if w_holds:
                        raise Vocabulary("returned while the mapping still has the token locked")
                    evs.append("ERet")
                    ret = int(f[1])
                    phase = "post"
                    words_at_ret = list(cur)
                elif f[0] == "chk":
                    in_chk = True
                elif f[0] == "endchk":
                    in_chk = False
                elif f[0] == "later":
                    lat_i = int(f[1])
                elif f[0] == "endlater":
                    lat_i = None
                elif f[0] == "lwait":
                    later[int(f[1])].append("Handoff.EWaitBegin")
                elif f[0] == "peek":
                    later[int(f[1])].append("Handoff.EPeekBegin")
                elif f[0] == "notready":
                    pass
                elif f[0] == "got":
                    later[int(f[1])].append("Handoff.EGot")
                    lobs[int(f[1])]["gots"].append(int(f[2]))
                elif f[0] == "cb":
                    later[int(f[1])].append("Handoff.ECb Handoff.C")
                    lobs[int(f[1])]["cbs"].append(int(f[2]))
                else:
                    raise Vocabulary("unknown harness event " + tok)
            else:
                i = int(who[1:])
                if f[0] == "set":
                    if phase == "post":
                        later[i].append("Handoff.ESet %d" % int(f[2]))
                    else:
                        evs.append("ESet %d %d" % (i, int(f[2])))
                elif f[0] == "cb":
                    later[int(f[1])].append("Handoff.ECb Handoff.P")
                    lobs[int(f[1])]["cbs"].append(int(f[2]))
                elif f[0] == "pdone":
                    pass
                else:
                    raise Vocabulary("unknown harness event " + tok)
            continue
        m = re.match(r"([a-z_]+)@([a-z]+)(\d+)=(\w+)$", rest)
        if not m:
            raise Vocabulary("unknown trace token " + tok)
        op, kind, idx, val = m.group(1), m.group(2), int(m.group(3)), m.group(4)
        loc = kind + str(idx)
        if kind == "r":
            continue                                     # reference count of a shared state
        if who == "W":
            if in_chk:
                continue                                 # the oracle's Ready() loads
            if phase == "post":
                if kind == "w" and lat_i == idx:
                    if op == "load":
                        later[idx].append("Handoff.ELd Handoff.C Handoff.%s" % WORD[val])
                    elif op.startswith("compare_exchange"):
                        ok = cur[idx] == "E" and val == "C"
                        later[idx].append("Handoff.ECas %s" % ("true" if ok else "false"))
                        cur[idx] = val
                    else:
                        raise Vocabulary("unexpected later operation on a word: " + tok)
                elif kind == "w":
                    raise Vocabulary("later consumer touches another future's word: " + tok)
                continue                                 # objects of the later consumers (their own events, cores)
            if phase != "call":
                raise Vocabulary("waiter operation outside the call: " + tok)
            ops_w += 1
            if kind == "w":
                if op == "load" and idx in cas_pending and is_shared(form, n, idx):
                    # SetCallbackImpl<true> is a compare_exchange_weak LOOP: an injected spurious failure (--weak) is not
                    # an operation of its own, the fiber wrapper re-reads the word into `expected` and the loop goes round.
                    # Re-read Result = the failed CAS that observed it (the model's ECasW false requires word <> Empty);
                    # re-read Empty = the loop retries from the same program point (a stutter, nothing emitted).  Unique
                    # words have no loop in the pinned code: a re-read there stays an ELdW and the model rejects it.
                    if val == "R":
                        evs.append("ECasW %d false" % idx)
                        cas_pending.discard(idx)
                    elif val != "E":
                        raise Vocabulary("re-read of a shared word after a spurious failure saw neither Empty nor Result: " + tok)
                    weak_rereads[0] += 1
                elif op == "load":
                    evs.append("ELdW %d %s" % (idx, WORD[val]))
                    if val == "E":
                        cas_pending.add(idx)
                elif op in ("compare_exchange_strong", "compare_exchange_weak"):
                    ok = (cur[idx], val) in (("E", "C"), ("C", "E"))
                    evs.append("ECasW %d %s" % (idx, "true" if ok else "false"))
                    cur[idx] = val
                    cas_pending.discard(idx)
                else:
                    raise Vocabulary("unexpected waiter operation on a word: " + tok)
                continue
            r = check_addr(op, loc, tok)
            if op == "fetch_sub":
                if not val.isdigit():
                    raise Vocabulary("event counter left the small range (wrapped?): " + tok)
                evs.append("ESubW %d" % int(val))
            elif op == "lock":
                evs.append("EWLock")
                w_holds, entered, wait_seen = True, False, False
            elif op in ("wait_for", "wait_until", "wait"):
                if not entered:
                    evs.append("EWaitEnter")
                if op != "wait" and not notify_seen:
                    evs.append("ETimeout")
                evs.append("EWaitRet")
                w_holds, entered, wait_seen = True, False, True
            elif op == "unlock":
                if not wait_seen and not entered:
                    evs.append("EWaitEnter")
                evs.append("EWUnlock")
                w_holds, entered = False, True
            else:
                raise Vocabulary("unexpected waiter operation: " + tok)
            continue
        # ---- a producer
        i = int(who[1:])
        if kind == "w":
            if idx != i:
                raise Vocabulary("producer touches another future's word: " + tok)
            if op == "exchange":
                if phase == "post":
                    later[i].append("Handoff.EXchg Handoff.%s" % WORD[cur[i]])
                else:
                    evs.append("EXchg %d %s" % (i, WORD[cur[i]]))
                    if cur[i] == "C":
                        got_event_before_ret.add(i)
                    if phase == "call":
                        ops_p += 1
                xchg_done.add(i)
                cur[i] = val
            elif op == "load":
                if phase != "post":
                    raise Vocabulary("producer destroys a state before the return: " + tok)
                later[i].append("Handoff.ELd Handoff.P Handoff.%s" % WORD[val])
            else:
                raise Vocabulary("unexpected producer operation on a word: " + tok)
            continue
        # an unnamed object: the waiter's stack event, or (after the return) a later consumer's
        if phase == "post" and i not in got_event_before_ret:
            continue
        if phase == "post":
            touches_after_ret.append(tok)        # the property's last clause is violated; nothing to map
            continue
        if role(op) is None:
            raise Vocabulary("unexpected producer operation on an unnamed object: " + tok)
        if phase != "post":
            check_addr(op, loc, tok)
            ops_p += 1
        if op == "fetch_sub":
            if not val.isdigit():
                raise Vocabulary("event counter left the small range (wrapped?): " + tok)
            evs.append("ESubP %d %d" % (i, int(val)))
        elif op == "lock":
            if w_holds and not entered:
                evs.append("EWaitEnter")
                entered = True
            evs.append("EPLock %d" % i)
        elif op == "notify_one":
            evs.append("EPNotify %d" % i)
            notify_seen = True
        elif op == "unlock":
            evs.append("EPUnlock %d" % i)
        else:
            raise Vocabulary("unexpected producer operation: " + tok)
    if ret is None:
        raise Vocabulary("the call never returned")
    return dict(evs=evs, ret=ret, later=later, lobs=lobs, touches=touches_after_ret, words_at_ret=words_at_ret,
                got_event=sorted(got_event_before_ret))


def nontrivial(trace):
    """Contended: inside the call window some producer operation lies strictly between the waiter's first and last
    operation (on words or on the event)."""
    toks = [t for t in trace.split(";") if t]
    try:
        a = next(k for k, t in enumerate(toks) if t == "W:!call")
        b = next(k for k, t in enumerate(toks) if t.startswith("W:!ret"))
    except StopIteration:
        return False
    win = [t for t in toks[a:b] if "@" in t]
    idx = [k for k, t in enumerate(win) if t.startswith("W:")]
    if not idx:
        return False
    return any(t.startswith("P") for t in win[idx[0]:idx[-1]])


def model_args(name):
    form, n, d, l = parse_scenario(name)
    return n, ("true" if n == 1 else "false"), ("true" if FORMS[form][0] else "false")


HEADER = ("From Coq Require Import List. Import ListNotations.\n"
          "From YV Require model.Handoff.\nFrom YV Require Import model.WaitEv model.WaitEvObs.\n")


def correspond(ck, traces, tag):
    """Replay traces (rows of the harness) through the models.  Returns (validated, nontrivial set, bad list,
    counters)."""
    terms, metas = [], []
    stats = dict(ret_true=0, ret_false=0, timeouts=0, later_replayed=0, reset_raced=0)
    for t in traces:
        if t["fail"]:
            continue
        try:
            mp = to_events(t["scenario"], t["trace"])
        except Vocabulary as e:
            ck.gen_obligation("correspondence WaitEv (trace vocabulary)", False, "%s in %s: %s" % (e, t["scenario"], t["trace"]))
            continue
        if mp["touches"]:
            ck.hits.append(dict(what="%s: a producer touched the waiter's event after the call returned: %s"
                                     % (t["scenario"], " ".join(mp["touches"])),
                                key=t["scenario"].split("/")[0] + ":touch-after-return",
                                replay=dict(harness="h_c11", scenario=t["scenario"], choices=t["choices"], trace=t["trace"],
                                            opts=t.get("_opts", []), yield_at=t.get("_ya", "before"))))
            continue
        n, one, timed = model_args(t["scenario"])
        form, _, _, l = parse_scenario(t["scenario"])
        lat = [i for i in range(n) if not is_shared(form, n, i)]
        terms.append("obs_all %d %s %s [%s] [%s]" % (
            n, one, timed, "; ".join(mp["evs"]),
            "; ".join("(%d, (%s, [%s]))" % (i, LATER_KIND[(i + l) % 3], "; ".join(mp["later"][i])) for i in lat)))
        metas.append((t, mp, lat))
    # identical terms (traces that differ only outside what a term looks at) are evaluated once
    uniq = sorted(set(terms))
    ures, logs = vlib.coq_eval_cases(HEADER, uniq, tag, shard=250) if uniq else ([], [])
    rmap = dict(zip(uniq, ures))
    failed = [x for x in uniq if rmap.get(x) is None]
    if failed:
        # another make may have rebuilt a library underneath us (inconsistent .vo): rebuild ours and retry once
        vlib.coq_make(["model/WaitEvObs.vo"])
        rres, logs2 = vlib.coq_eval_cases(HEADER, failed, tag + "r", shard=250)
        rmap.update(dict(zip(failed, rres)))
        logs += logs2
    res = [rmap.get(x) for x in terms]
    stats["coq_terms"] = len(uniq)
    # the generated case files of this run are not needed any more (a failing one is quoted in the replay file)
    import glob
    for f in glob.glob(os.path.join(vlib.COQ, "cases", "%s_%d_*.v" % (tag, os.getpid()))) + \
            glob.glob(os.path.join(vlib.COQ, "cases", "%sr_%d_*.v" % (tag, os.getpid()))):
        try:
            os.remove(f)
        except OSError:
            pass
    bad = {}
    okmain = {}
    for (t, mp, lat), r in zip(metas, res):
        key = t["scenario"] + "|" + t["trace"]
        if r is None:
            bad.setdefault(key, (t, "model evaluation failed"))
            continue
        n = parse_scenario(t["scenario"])[1]
        l = parse_scenario(t["scenario"])[3]
        if r[0] == 0:
            bad.setdefault(key, (t, "WaitEv rejects event #%d (%s)" % (r[1], mp["evs"][r[1]] if r[1] < len(mp["evs"]) else "?")))
            continue
        mret, mto, mtouch, munder, mdone = r[1], r[2], r[3], r[4], r[5]
        mwords = r[6:6 + n]
        want_words = [{"E": 0, "C": 1, "R": 2}[x] for x in mp["words_at_ret"]]
        if mdone != 1 or mret != (2 if mp["ret"] else 1):
            bad.setdefault(key, (t, "model predicts return %s (returned=%d), implementation returned %d" % (mret, mdone, mp["ret"])))
            continue
        if mwords != want_words:
            bad.setdefault(key, (t, "model's words at the return %s, implementation's %s" % (mwords, want_words)))
            continue
        if mtouch != 0 or munder != 0:
            bad.setdefault(key, (t, "model records touch-after-return=%d underflow=%d" % (mtouch, munder)))
            continue
        pos = 6 + n
        ok = True
        for i in lat:
            ln = r[pos]
            o = r[pos + 1:pos + 1 + ln]
            pos += 1 + ln
            if o[0] == 2:
                bad.setdefault(key, (t, "Handoff (from WaitEv.proj of future %d) rejects later event #%d (%s)"
                                     % (i, o[1], mp["later"][i][o[1]] if o[1] < len(mp["later"][i]) else "?")))
                ok = False
                break
            if o[0] != 1:
                bad.setdefault(key, (t, "no future %d in the model state" % i))
                ok = False
                break
            term, frees, k = o[1], o[2], o[3]
            mcbs = o[4:4 + k]
            g = o[4 + k]
            mgots = o[5 + k:5 + k + g]
            ob = mp["lobs"][i]
            if mcbs != [c + 1 for c in ob["cbs"]] or mgots != [x + 1 for x in ob["gots"]]:
                bad.setdefault(key, (t, "Handoff predicts for future %d callbacks %s gets %s, implementation showed %s %s"
                                     % (i, mcbs, mgots, ob["cbs"], ob["gots"])))
                ok = False
                break
            if term != 1 or frees != 1:
                bad.setdefault(key, (t, "Handoff not terminal / freed once for future %d (terminal=%d frees=%d)" % (i, term, frees)))
                ok = False
                break
            stats["later_replayed"] += 1
        if ok:
            okmain[key] = (t, mp, mto)
    validated, nontriv = 0, set()
    for key, (t, mp, mto) in okmain.items():
        if key in bad:
            continue
        validated += 1
        stats["ret_true" if mp["ret"] else "ret_false"] += 1
        stats["timeouts"] += mto
        if "EWaitRet" in mp["evs"]:
            tail = mp["evs"][mp["evs"].index("EWaitRet"):]
            if any(e.startswith("ECasW") and e.endswith("false") for e in tail):
                stats["reset_raced"] += 1          # the producer's exchange landed between Reset's load and its CAS
        if nontrivial(t["trace"]):
            nontriv.add(key)
    return validated, nontriv, list(bad.values()), stats


def harness_hits(ck, rows, out, err, rc, hname="h_c11", exe=None, args=()):
    if rc != 0:
        m = re.search(r"CRASH signal=(\d+) choices=([\d,]*)", out + err)
        asan = re.search(r"ERROR: AddressSanitizer: ([a-z-]+)", out + err)
        # the scenario that was running: the first one of the batch without a summary line
        scen = None
        if exe is not None:
            largs = [a for a in args]
            for k in ("--mode", "--max", "--seed", "--pb", "--yield-at"):
                if k in largs:
                    i = largs.index(k)
                    del largs[i:i + 2]
            try:
                r = vlib.sh([exe, "--list"] + largs, timeout=60)
                done = set(x["scenario"] for x in rows if "mode" in x)
                only = args[list(args).index("--only") + 1] if "--only" in args else ""
                scen = next((x for x in r.stdout.split() if only in x and x not in done), None)
            except Exception:
                scen = None
        ck.hits.append(dict(what="harness %s ended abnormally in %s (rc=%d)%s %s" % (hname, scen, rc, (" " + asan.group(0)) if asan else "",
                                                                                      (err or out)[-800:]),
                            key="crash" if not asan else "asan:" + asan.group(1),
                            replay=dict(harness=hname, scenario=scen, choices=(m.group(2).rstrip(",") if m else None),
                                        opts=explore_opts(list(args)), yield_at=yield_at_of(list(args)))))
    for t in rows:
        if "trace" in t and t["fail"]:
            ck.hits.append(dict(what="%s: %s" % (t["scenario"], t["fail"]),
                                key=t["scenario"].split("/")[0] + ":" + t["fail"][:40],
                                replay=dict(harness=hname, scenario=t["scenario"], choices=t["choices"], trace=t["trace"],
                                            opts=t.get("_opts", []), yield_at=t.get("_ya", "before"))))


def explore_opts(args):
    """The options that change how a choice vector is interpreted (needed to replay it)."""
    o = []
    for k in ("--pb", "--weak", "--max-choices", "--yield-at"):
        if k in args:
            o += [k, args[args.index(k) + 1]]
    return o


DEADLINES = ("-5", "15", "55", "1000005")

# n = 2 scenarios small enough for an unbounded (exhaustive) DFS in the thorough tier (3.8 M and 12.3 M executions); the
# other n = 2 scenarios have > 60 M interleavings and are explored with a preemption bound (stated in the evidence)
N2_FULL = ("w/n2/d-5/l0", "wi/n2/d-5/l0", "wf/n2/d15/l0", "wfi/n2/d15/l0")
# unbounded DFS with the switch after the operation: w/n2 only (wf/n2/d15/l0 has ~38 M executions in that mode, 10 min on its
# own; it keeps its --yield-at after pass under the preemption bound)
N2_FULL_AFTER = ("w/n2/d-5/l0",)


def yield_at_of(args):
    return args[args.index("--yield-at") + 1] if "--yield-at" in args else "before"


def with_yield_passes(batches, tier):
    """Every DFS list runs a second time with the fiber switch offered AFTER each wrapped operation (so a fiber can be
    stopped between an operation and the plain code that follows it); random lists offer it at both places."""
    out = []
    for label, lists, tag in batches:
        if lists and lists[0][1] == "random":
            out.append((label + " (--yield-at both)", [a + ["--yield-at", "both"] for a in lists], tag))
            continue
        out.append((label, lists, tag))
        after = [a + ["--yield-at", "after"] for a in lists]
        if tag == "n2x":
            # only the scenarios of N2_FULL_AFTER repeat their unbounded DFS in this mode
            after = [a for a in after if a[a.index("--exact") + 1] in N2_FULL_AFTER]
        out.append((label + ", switch after the operation (--yield-at after)", after, tag + "a"))
    return out


def plan(ck):
    """Batches: (label, [argument lists, run in parallel], tag)."""
    seed = str(ck.seed)
    parts = ["/d%s/l%d" % (d, l) for d in DEADLINES for l in range(3)]
    if ck.tier == "quick":
        return with_yield_passes([
            ("n=1 all forms, one injected spurious weak-CAS failure per execution, exhaustive DFS (ticker scenarios only for wf/wu with later-kind 0)",
             [["--mode", "dfs", "--only", "/n1" + p, "--param", "light=1", "--weak", "1"] for p in parts], "n1"),
            ("n=2 all forms, one injected spurious weak-CAS failure per execution, DFS with preemption bound 2",
             [["--mode", "dfs", "--only", "/n2" + p, "--pb", "2", "--max", "100000", "--weak", "1"] for p in parts], "n2"),
            ("n=3 all forms, seeded random walks",
             [["--mode", "random", "--only", "/n3/", "--max", "100", "--seed", seed]], "n3"),
        ], ck.tier)
    return with_yield_passes([
        ("n=1 all forms, exhaustive DFS",
         [["--mode", "dfs", "--only", "/n1" + p, "--max", "3000000"] for p in parts], "n1"),
        ("n=2 all forms, DFS with preemption bound 3",
         [["--mode", "dfs", "--only", "/n2" + p, "--pb", "3", "--max", "3000000"] for p in parts], "n2"),
        # the quick tier's two batches with one injected spurious weak-CAS failure per execution, exactly as they are run there
        ("n=1 all forms, one injected spurious weak-CAS failure per execution, exhaustive DFS (ticker scenarios only for wf/wu with later-kind 0)",
         [["--mode", "dfs", "--only", "/n1" + p, "--param", "light=1", "--weak", "1"] for p in parts], "n1"),
        ("n=2 all forms, one injected spurious weak-CAS failure per execution, DFS with preemption bound 2",
         [["--mode", "dfs", "--only", "/n2" + p, "--pb", "2", "--max", "100000", "--weak", "1"] for p in parts], "n2"),
        ("n=2 selected scenarios (%s), unbounded exhaustive DFS" % ", ".join(N2_FULL),
         [["--mode", "dfs", "--exact", x, "--max", "100000000"] for x in N2_FULL], "n2x"),
        ("n=3 all forms, seeded random walks",
         [["--mode", "random", "--only", "/n3" + p, "--max", "400", "--seed", seed] for p in parts], "n3"),
    ], ck.tier)


def run_parallel(exe, arglists, timeout=1500, env=None, workers=None):
    import concurrent.futures
    with concurrent.futures.ThreadPoolExecutor(max_workers=workers or max(2, min(len(arglists), vlib.NPROC))) as ex:
        return list(ex.map(lambda a: (a,) + tuple(runner.run_harness(exe, a, timeout=timeout, env=env)), arglists))


def main(ck):
    ck.assumptions = [
        "FIBER backend: sequentially consistent, switches only at the wrapped yaclib_std operations (memory-order effects are C04's subject)",
        "the condition variable and mutex are the fiber backend's (C18's subject); WaitEv models them as lock + flag + park/notify, with the "
        "two condvar-internal transitions (predicate check/park, timer expiry) inferred by the trace mapping",
        "virtual time: the scheduler's clock (10 ns per fiber resume); deadlines are off the 10 ns grid (chosen while "
        "Scheduler::SleepPreemptive still mishandled a deadline equal to the current time; fixed in /repo by 8621598, C18)",
        "shared futures: only the waiter is queued on the shared word during the call, so the word behaves as Empty/callback/Result "
        "(the shared stack discipline itself is C06's subject); their later consumers are checked by the oracle only",
    ]
    ck.cov["trusted_base"] = [
        "Coq 8.16.1 kernel + vm_compute (used for replaying traces and in Example witnesses)",
        "Print Assumptions of every theorem in Properties_C11.v: Closed under the global context (no axioms)",
        "checks/c11.py trace-to-event mapping and harness/h_c11.cpp oracle",
        "YACLIB_VERIF hooks in the fault layer; FIBER scheduler, fiber mutex/condvar/atomics (C17-C19 are about those)",
    ]
    t_start = time.time()
    ck.prove("props/Properties_C11.v", ["model/WaitEvObs.vo"])
    phase = dict(prove_s=round(time.time() - t_start, 1))
    src = [os.path.join(vlib.VERIF, "harness", "h_c11.cpp")]
    exe, b = vlib.compile_harness("F", src, "c11")
    all_rows, heads = [], []
    batches = []
    for label, arglists, tag in plan(ck):
        t0 = time.time()
        hs, ts = [], []
        for args, rows, out, err, rc in run_parallel(exe, arglists):
            for r in rows:
                r["_opts"] = explore_opts(args)
                r["_ya"] = yield_at_of(args)
            harness_hits(ck, rows, out, err, rc, exe=exe, args=args)
            hs += [r for r in rows if "mode" in r]
            ts += [r for r in rows if "trace" in r]
        heads += hs
        all_rows += ts
        batches.append(dict(batch=label, scenarios=len(hs), executions=sum(h["executions"] for h in hs),
                            distinct_traces=len(ts), exhaustive=bool(hs) and all(h["exhaustive"] for h in hs),
                            seconds=round(time.time() - t0, 1)))
    ck.cov["batches"] = batches
    ck.cov["evaluations"] = sum(h["executions"] for h in heads)
    ck.cov["scenarios"] = len(heads)
    ck.cov["exhaustive"] = bool(batches) and all(x["exhaustive"] for x in batches)
    ck.cov["exhaustive_part"] = "; ".join(x["batch"] for x in batches if x["exhaustive"]) or "none"
    # a scenario explored by two batches (bounded and unbounded DFS) contributes each distinct trace once
    seen, uniq_rows = set(), []
    for t in all_rows:
        k = (t["scenario"], t["trace"], t["fail"])
        if k not in seen:
            seen.add(k)
            uniq_rows.append(t)
    all_rows = uniq_rows
    phase["explore_s"] = round(time.time() - t_start - phase["prove_s"], 1)
    t1 = time.time()
    validated, nontriv, bad, stats = correspond(ck, all_rows, "c11")
    phase["replay_in_coq_s"] = round(time.time() - t1, 1)
    ck.cov["phase_seconds"] = phase
    # ---- the same scenarios under AddressSanitizer (stack-use-after-return), thorough tier
    if ck.tier == "thorough":
        t0 = time.time()
        exa, ba = vlib.compile_harness("FA", src, "c11")
        asan_env = {"ASAN_OPTIONS": "detect_leaks=1:detect_stack_use_after_return=1:abort_on_error=0:exitcode=71"}
        fa_lists = [["--mode", "dfs", "--only", "/n1/d-5"],
                    ["--mode", "dfs", "--only", "/n2/d-5", "--pb", "2", "--max", "60000"],
                    ["--mode", "dfs", "--only", "/n2/d15", "--pb", "2", "--max", "60000"]]
        fa_lists += [a + ["--yield-at", "after"] for a in fa_lists]
        fa_lists += [["--mode", "random", "--max", "300", "--seed", str(ck.seed), "--yield-at", "both"]]
        rows, rc = [], 0
        for args, rws, out, err, rc1 in run_parallel(exa, fa_lists, env=asan_env):
            for r in rws:
                r["_opts"] = explore_opts(args)
                r["_ya"] = yield_at_of(args)
            harness_hits(ck, rws, out, err, rc1, "h_c11 (FA)", exe=exa, args=args)
            rows += rws
            rc = rc or rc1
        hs = [r for r in rows if "mode" in r]
        ck.cov["asan"] = dict(config="FA detect_stack_use_after_return=1", scenarios=len(hs),
                              executions=sum(h["executions"] for h in hs), returncode=rc, seconds=round(time.time() - t0, 1))
        ck.cov["evaluations"] += sum(h["executions"] for h in hs)
    ck.cov["traces_validated_against_impl"] = validated
    ck.cov["distinct_traces"] = len(all_rows)
    ck.cov["distinct_nontrivial"] = len(nontriv)
    ck.cov["outcomes"] = stats
    ck.cov["rule"] = ("every scheduling decision of the FIBER backend (switch before each wrapped atomic/mutex/condvar operation, next "
                      "fiber, notified waiter; in the n=1 and n=2 DFS batches also the position of one spurious compare_exchange_weak failure, --weak 1) explored per batch as stated in 'batches'; forms w/wi/wf/wfi/wu/wui (unique: variadic, "
                      "iterator, WaitFor, WaitUntil), sw/swi (shared), mw (mixed), deadlines -5/15/55/1000005 virtual ns, 3 rotations of "
                      "later consumers (Get&&, DetachInline, Wait+Get const&); every DFS batch is run with the fiber switch offered before each "
                      "wrapped operation and again with it offered after each (--yield-at after), random walks with both; traces "
                      "deduplicated by their operation sequence; "
                      "non-trivial = inside the call some producer operation lies strictly between the waiter's first and last operation")
    samples = []
    for pick in ("wf/n1/d-5/l0", "wu/n2/d15/l1", "w/n2/d-5/l0", "sw/n2/d-5/l0", "wfi/n3/d15/l2"):
        xs = [t for t in all_rows if t["scenario"] == pick and "ret 0" in t["trace"]] or [t for t in all_rows if t["scenario"] == pick]
        for t in xs[:1]:
            samples.append(dict(scenario=t["scenario"], trace=t["trace"], choices=t["choices"], executions=t["count"]))
    ck.cov["samples"] = samples
    for t, why in bad[:10]:
        ck.broken.append(dict(name="correspondence WaitEv.run / Handoff.run vs implementation on %s" % t["scenario"],
                              detail="%s\ntrace: %s\nchoices: %s %s" % (why, t["trace"], t["choices"], " ".join(t.get("_opts", [])))))
    if not all_rows:
        ck.broken.append(dict(name="correspondence WaitEv.run vs implementation", detail="harness produced no traces"))


def replay(ck, path):
    d = json.load(open(path))
    rp = d.get("replay") or {}
    if not rp.get("scenario"):
        print("nothing to replay: %s" % json.dumps(d)[:2000])
        return 0
    cfg = "FA" if "(FA)" in (rp.get("harness") or "") else "F"
    exe, b = vlib.compile_harness(cfg, [os.path.join(vlib.VERIF, "harness", "h_c11.cpp")], "c11")
    opts = list(rp.get("opts") or [])
    if "--yield-at" not in opts:
        opts += ["--yield-at", rp.get("yield_at") or "before"]
    rows, out, err, rc = runner.run_harness(exe, ["--mode", "replay", "--exact", rp["scenario"], "--choices", rp["choices"]] + opts)
    print(out)
    bad = any(r.get("fail") for r in rows if "trace" in r)
    for r in rows:
        if "trace" in r and not r.get("fail"):
            try:
                if to_events(r["scenario"], r["trace"])["touches"]:
                    bad = True
                    print("a producer touched the waiter's event after the call returned")
            except Vocabulary as e:
                bad = True
                print("trace vocabulary: %s" % e)
    return 1 if bad or rc != 0 else 0
