#!/usr/bin/env python3
"""Build scratch copies of /repo with a chosen subset of the C19 candidate fixes, and emit the diffs.
   usage: c19.mkfix.py tree <dir> <fix,fix,...>     e.g. tree /var/tmp/c19.fix 1,2,3,4,5,6
          c19.mkfix.py diffs                        writes /verif/.agents/fixes/c19-<n>-<slug>.diff"""
import os, shutil, subprocess, sys

REPO = "/repo"
FA = "include/yaclib/fault/detail/fiber/atomic.hpp"
WA = "include/yaclib/fault/detail/atomic.hpp"


def rep(s, old, new, count=None):
    n = s.count(old)
    if n == 0 or (count is not None and n != count):
        raise SystemExit("pattern occurs %d times (wanted %s): %r" % (n, count, old))
    return s.replace(old, new)


def fix1(files):  # fetch_and does +=
    s = files[FA]
    old = """  T fetch_and(T arg, std::memory_order) %snoexcept {
    auto val = _value;
    _value += arg;"""
    for q in ("", "volatile "):
        s = rep(s, old % q, (old % q).replace("+=", "&="), 1)
    files[FA] = s


INT_HDR = "class AtomicIntegralBase<T, true> : public AtomicFloatingBase<T, true> {"
PTR_HDR = "class Atomic<U*> : public AtomicBase<U*> {"


def swap_incdec(s, start_marker, ty):
    i = s.index(start_marker)
    head, tail = s[:i], s[i:]
    for q in ("", "volatile "):
        for op in ("++", "--"):
            a = "  %s operator%s() %snoexcept {\n    return _value%s;\n  }" % (ty, op, q, op)
            b = "  %s operator%s(int) %snoexcept {\n    return %s_value;\n  }" % (ty, op, q, op)
            tail = rep(tail, a, "  %s operator%s() %snoexcept {\n    return %s_value;\n  }" % (ty, op, q, op), 1)
            tail = rep(tail, b, "  %s operator%s(int) %snoexcept {\n    return _value%s;\n  }" % (ty, op, q, op), 1)
    return head + tail


def fix2(files):  # integral ++/-- return each other's value
    s = files[FA]
    i = s.index(INT_HDR)
    j = s.index(PTR_HDR)
    files[FA] = s[:i] + swap_incdec(s[i:j], INT_HDR, "T") + s[j:]


def fix3(files):  # pointer ++/--
    s = files[FA]
    j = s.index(PTR_HDR)
    files[FA] = s[:j] + swap_incdec(s[j:], PTR_HDR, "U*")


def fix4(files):  # plain signed arithmetic: compute in the unsigned counterpart (needs fix2)
    s = files[FA]
    i = s.index("class AtomicFloatingBase<T, true> : public AtomicBase<T> {")
    j = s.index(INT_HDR)
    k = s.index(PTR_HDR)
    flt, integ = s[i:j], s[j:k]
    for op in ("+", "-"):
        flt = rep(flt, "    _value %s= arg;\n" % op,
                  "    _value = static_cast<T>(static_cast<WrapT>(_value) %s static_cast<WrapT>(arg));\n" % op, 2)
        flt = rep(flt, "    return _value %s= arg;\n" % op,
                  "    return _value = static_cast<T>(static_cast<WrapT>(_value) %s static_cast<WrapT>(arg));\n" % op, 2)
    flt = rep(flt, " protected:\n  using Base::_value;\n",
              " protected:\n"
              "  // std::atomic arithmetic wraps around for signed T as well, plain signed overflow is undefined behaviour:\n"
              "  // compute in the unsigned counterpart\n"
              "  using WrapT = typename std::conditional_t<std::is_integral_v<T>, std::make_unsigned<T>, std::common_type<T>>::type;\n"
              "  using Base::_value;\n", 1)
    for op, sym in (("++", "+"), ("--", "-")):
        integ = rep(integ, "    return %s_value;\n" % op,
                    "    return _value = static_cast<T>(static_cast<WrapT>(_value) %s 1);\n" % sym, 2)
        integ = rep(integ, "    return _value%s;\n" % op,
                    "    auto val = _value;\n    _value = static_cast<T>(static_cast<WrapT>(_value) %s 1);\n    return val;\n" % sym, 2)
    integ = rep(integ, " protected:\n  using Base::_value;\n", " protected:\n  using Base::_value;\n  using typename Base::WrapT;\n", 1)
    files[FA] = s[:i] + flt + integ + s[k:]


def fix5(files):  # S6: single-order compare_exchange_weak reloads with load(order)
    s = files[WA]
    s = rep(s, "void SetAtomicWeakFailFrequency(std::uint32_t k);\n",
            "void SetAtomicWeakFailFrequency(std::uint32_t k);\n\n"
            "// Order for the load that stands in for a spuriously failed single-order compare_exchange_weak:\n"
            "// a load must not be release or acq_rel (the failure order std::atomic derives from `order`)\n"
            "constexpr std::memory_order FailureOrder(std::memory_order order) noexcept {\n"
            "  return order == std::memory_order_acq_rel   ? std::memory_order_acquire\n"
            "         : order == std::memory_order_release ? std::memory_order_relaxed\n"
            "                                              : order;\n"
            "}\n", 1)
    s = rep(s, "      expected = load(order);\n", "      expected = load(FailureOrder(order));\n", 2)
    files[WA] = s


def fix6(files):  # floating compare_exchange compares with == instead of the object representation
    s = files[FA]
    s = rep(s, "#include <utility>\n", "#include <cstring>\n#include <utility>\n", 1)
    s = rep(s, "    if (this->_value == expected) {\n",
            "    // std::atomic compares object representations: NaN equals itself, -0.0 differs from 0.0\n"
            "    if (std::memcmp(&this->_value, &expected, sizeof(T)) == 0) {\n", 1)
    files[FA] = s


def fix7(files):  # operator=(T) hidden by the implicit copy assignment of the most derived classes
    s = files[WA]
    s = rep(s, """class Atomic : public AtomicIntegralBase<Impl, T> {
  using Base = AtomicIntegralBase<Impl, T>;

 public:
  using Base::Base;
""", """class Atomic : public AtomicIntegralBase<Impl, T> {
  using Base = AtomicIntegralBase<Impl, T>;

 public:
  using Base::Base;
  using AtomicBase<Impl, T>::operator=;
""", 1)
    s = rep(s, """class Atomic<Impl, U*> : public AtomicBase<Impl, U*> {
  using Base = AtomicBase<Impl, U*>;

 public:
  using Base::Base;
""", """class Atomic<Impl, U*> : public AtomicBase<Impl, U*> {
  using Base = AtomicBase<Impl, U*>;

 public:
  using Base::Base;
  using Base::operator=;
""", 1)
    files[WA] = s
    s = files[FA]
    s = rep(s, """class Atomic : public AtomicIntegralBase<T> {
  using Base = AtomicIntegralBase<T>;

 public:
  using Base::Base;
""", """class Atomic : public AtomicIntegralBase<T> {
  using Base = AtomicIntegralBase<T>;

 public:
  using Base::Base;
  using AtomicWait<T>::operator=;
""", 1)
    s = rep(s, """class Atomic<U*> : public AtomicBase<U*> {
  using Base = AtomicBase<U*>;

 public:
  using Base::Base;
""", """class Atomic<U*> : public AtomicBase<U*> {
  using Base = AtomicBase<U*>;

 public:
  using Base::Base;
  using AtomicWait<U*>::operator=;
""", 1)
    files[FA] = s


FIXES = {1: (fix1, "fiber-fetch-and"), 2: (fix2, "fiber-integral-incdec"), 3: (fix3, "fiber-pointer-incdec"),
         4: (fix4, "fiber-signed-wrap"), 5: (fix5, "thread-weak-cas-failure-order"), 6: (fix6, "fiber-cas-representation"),
         7: (fix7, "atomic-assign-hidden")}


def load():
    return {p: open(os.path.join(REPO, p)).read() for p in (FA, WA)}


def tree(dst, fixes):
    shutil.rmtree(dst, ignore_errors=True)
    os.makedirs(dst)
    for d in ("include", "src", "cmake"):
        shutil.copytree(os.path.join(REPO, d), os.path.join(dst, d))
    shutil.copy2(os.path.join(REPO, "CMakeLists.txt"), os.path.join(dst, "CMakeLists.txt"))
    files = load()
    for f in fixes:
        FIXES[f][0](files)
    for p, s in files.items():
        open(os.path.join(dst, p), "w").write(s)


def diffs():
    out = "/verif/.agents/fixes"
    os.makedirs(out, exist_ok=True)
    for n, (fn, slug) in FIXES.items():
        base = load()
        if n == 4:
            fix2(base)
        new = dict(base)
        fn(new)
        text = ""
        for p in (FA, WA):
            if base[p] != new[p]:
                a, b = "/var/tmp/c19.d.a", "/var/tmp/c19.d.b"
                open(a, "w").write(base[p])
                open(b, "w").write(new[p])
                r = subprocess.run(["diff", "-u", "--label", "a/" + p, "--label", "b/" + p, a, b], stdout=subprocess.PIPE, text=True)
                text += "diff --git a/%s b/%s\n" % (p, p) + r.stdout
                os.remove(a)
                os.remove(b)
        open(os.path.join(out, "c19-%d-%s.diff" % (n, slug)), "w").write(text)
        print("c19-%d-%s.diff: %d lines" % (n, slug, text.count("\n")))


if __name__ == "__main__":
    if sys.argv[1] == "tree":
        tree(sys.argv[2], [int(x) for x in sys.argv[3].split(",") if x])
    else:
        diffs()
