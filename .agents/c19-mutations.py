import sys, os, subprocess
sys.path.insert(0, '/var/tmp')
import importlib.util
spec = importlib.util.spec_from_file_location("mkfix", "/var/tmp/c19.mkfix.py"); mk = importlib.util.module_from_spec(spec); spec.loader.exec_module(mk)
FA, WA = mk.FA, mk.WA
def m1(f):  # fiber fetch_or xors (non-volatile overload only)
    f[FA] = mk.rep(f[FA], "  T fetch_or(T arg, std::memory_order) noexcept {\n    auto val = _value;\n    _value |= arg;", "  T fetch_or(T arg, std::memory_order) noexcept {\n    auto val = _value;\n    _value ^= arg;", 1)
def m2(f):  # strong CAS consults the weak-failure injection
    f[WA] = mk.rep(f[WA], "  bool compare_exchange_strong(T& expected, T desired, std::memory_order order = std::memory_order_seq_cst) noexcept {\n",
       "  bool compare_exchange_strong(T& expected, T desired, std::memory_order order = std::memory_order_seq_cst) noexcept {\n    if (ShouldFailAtomicWeak()) {\n      expected = load(FailureOrder(order));\n      return false;\n    }\n", 1)
def m3(f):  # wrapper fetch_sub forwards to fetch_add (integral/floating, non-volatile)
    f[WA] = mk.rep(f[WA], "  T fetch_sub(T arg, std::memory_order order = std::memory_order_seq_cst) noexcept {\n    YACLIB_INJECT_FAULT(auto r = Impl::fetch_sub(arg, order));",
       "  T fetch_sub(T arg, std::memory_order order = std::memory_order_seq_cst) noexcept {\n    YACLIB_INJECT_FAULT(auto r = Impl::fetch_add(arg, order));", 1)
def m4(f):  # fiber exchange returns the new value
    f[FA] = mk.rep(f[FA], "  T exchange(T desired, std::memory_order) noexcept {\n    return std::exchange(_value, desired);", "  T exchange(T desired, std::memory_order) noexcept {\n    return _value = desired;", 1)
def m5(f):  # statement outside the vocabulary (harmless in C++): must fail loudly
    f[FA] = mk.rep(f[FA], "  T load(std::memory_order) const noexcept {\n    return _value;", "  T load(std::memory_order) const noexcept {\n    T r = _value;\n    return r;", 1)
def m6(f):  # harmless refactoring inside the vocabulary
    f[FA] = mk.rep(f[FA], "  T fetch_or(T arg, std::memory_order) noexcept {\n    auto val = _value;\n    _value |= arg;\n    return val;", "  T fetch_or(T arg, std::memory_order) noexcept {\n    auto old = _value;\n    _value = _value | arg;\n    return old;", 1)
    f[FA] = mk.rep(f[FA], "  void store(T desired, std::memory_order) noexcept {\n    _value = desired;", "  void store(T desired, std::memory_order) noexcept {\n    this->_value = desired;\n    return;", 1)
def m7(f):  # the two-order weak CAS reloads with the success order
    f[WA] = mk.rep(f[WA], "      expected = load(failure);\n", "      expected = load(success);\n", 2)
MUTS = dict(m1=m1, m2=m2, m3=m3, m4=m4, m5=m5, m6=m6, m7=m7)
name = sys.argv[1]; dst = sys.argv[2]
mk.tree(dst, [1,2,3,4,5,6])
files = {p: open(os.path.join(dst, p)).read() for p in (FA, WA)}
MUTS[name](files)
for p, s in files.items(): open(os.path.join(dst, p), "w").write(s)
